//go:build verif

package gomatrixserverlib

import (
	"bytes"
	"crypto/sha256"
	"encoding/json"
	"errors"
	"fmt"
	"reflect"
	"sort"
	"strings"
	"time"
	"unicode/utf8"

	"github.com/matrix-org/gomatrixserverlib/spec"
	"github.com/tidwall/sjson"
	"golang.org/x/crypto/ed25519"
	"pgregory.net/rapid"
)

// C17 (c)+(d) — event size / field-length limits and the room-version trait table.

// ---------------------------------------------------------------------------------------------
// The trait table, transcribed from the Matrix specification (DESIGN.md Appendix C). The four
// unstable versions are "the version they are based on" plus the feature of their MSC.

type c17Traits struct {
	Stable          bool
	StateRes        int    // 1 = v1, 2 = v2, 3 = v2.1
	EventFormat     int    // 1 = event references + event_id field, 2 = event IDs, no event_id field
	IDFormat        int    // 1 = $opaque:domain, 2 = "$" + standard base64 hash, 3 = "$" + URL-safe base64 hash
	Redaction       string // v1 | v6 | v8 | v9 | v11
	StrictValidity  bool
	CanonicalJSON   bool
	IntegerPL       bool
	Knock           bool
	Restricted      bool
	KnockRestricted string // "yes" | "no" | "early" (library honours MSC3787 early in every knock-capable version: documented departure D7, not judged)
	Privileged      bool   // creators privileged and room ID = create event ID (domainless room IDs)
}

var c17Table = map[string]c17Traits{
	"1":                   {true, 1, 1, 1, "v1", false, false, false, false, false, "no", false},
	"2":                   {true, 2, 1, 1, "v1", false, false, false, false, false, "no", false},
	"3":                   {true, 2, 2, 2, "v1", false, false, false, false, false, "no", false},
	"4":                   {true, 2, 2, 3, "v1", false, false, false, false, false, "no", false},
	"5":                   {true, 2, 2, 3, "v1", true, false, false, false, false, "no", false},
	"6":                   {true, 2, 2, 3, "v6", true, true, false, false, false, "no", false},
	"7":                   {true, 2, 2, 3, "v6", true, true, false, true, false, "early", false},
	"8":                   {true, 2, 2, 3, "v8", true, true, false, true, true, "early", false},
	"9":                   {true, 2, 2, 3, "v9", true, true, false, true, true, "early", false},
	"10":                  {true, 2, 2, 3, "v9", true, true, true, true, true, "yes", false},
	"11":                  {true, 2, 2, 3, "v11", true, true, true, true, true, "yes", false},
	"12":                  {true, 3, 2, 3, "v11", true, true, true, true, true, "yes", true},
	"org.matrix.msc3667":  {false, 2, 2, 3, "v6", true, true, true, true, false, "early", false}, // v7 + integer power levels
	"org.matrix.msc3787":  {false, 2, 2, 3, "v9", true, true, false, true, true, "yes", false},   // v9 + knock_restricted
	"org.matrix.msc4014":  {false, 2, 2, 3, "v9", true, true, true, true, true, "yes", false},    // v10 + pseudo IDs
	"org.matrix.hydra.11": {false, 3, 2, 3, "v11", true, true, true, true, true, "yes", true},    // v11 + MSC4289/4291/4297 (= v12)
}

var c17Versions = []string{"1", "2", "3", "4", "5", "6", "7", "8", "9", "10", "11", "12",
	"org.matrix.msc3667", "org.matrix.msc3787", "org.matrix.msc4014", "org.matrix.hydra.11"}

const (
	c17Origin = "h.test"
	c17KeyID  = KeyID("ed25519:c17")
)

var c17Key = ed25519.NewKeyFromSeed(bytes.Repeat([]byte{0x17}, 32))
var c17Now = time.UnixMilli(1700000000000)

// ---------------------------------------------------------------------------------------------
// (c) limits

type c17Field struct {
	Name  string `json:"name"`  // type | state_key | sender | room_id
	Unit  string `json:"unit"`  // bytes | codepoints: the unit in which N is measured
	Width int    `json:"width"` // UTF-8 width of the filler rune (1..4)
	N     int    `json:"n"`
}

type c17LimCase struct {
	Version string     `json:"version"`
	Path    string     `json:"path"` // receipt (NewEventFromUntrustedJSON) | build (EventBuilder.Build)
	Fields  []c17Field `json:"fields,omitempty"`
	Size    int        `json:"size,omitempty"` // if > 0: the whole event JSON is padded to exactly this many bytes
	// Wire (receipt path): how the sender spells the event. "" = canonical JSON. The limits are defined
	// on the canonical form the event is stored and hashed in, so every spelling of one event must
	// get the same outcome: "padded" (insignificant white space), "escaped" (\uXXXX for ASCII text),
	// "unsigned" (a large unsigned section, which is stripped on receipt), "age_ts" (another stripped key).
	Wire string `json:"wire,omitempty"`
	// BadHash (receipt path, field limits only): the content hash does not match, so the parser keeps
	// the event in redacted form - the limited fields survive redaction and the limits still apply
	BadHash bool `json:"bad_hash,omitempty"`
	// AsCreate (receipt path, domainless versions, room_id field): the event carrying the room_id is the
	// m.room.create event itself, whose room ID the version derives from the event ID — the limit is on
	// the member the event carries all the same
	AsCreate bool `json:"as_create,omitempty"`
}

// c17Wire re-spells a canonical event without changing its value (beyond the keys stripped on receipt).
func c17Wire(raw []byte, how string) []byte {
	switch how {
	case "padded":
		return []byte("{" + strings.Repeat(" ", 300) + string(raw[1:len(raw)-1]) + "\n\t" + strings.Repeat(" ", 40) + "}")
	case "escaped":
		return []byte(strings.Replace(string(raw), `"body":"pppppppppppppppppppp`, `"body":"`+strings.Repeat(`\u0070`, 20), 1))
	case "unsigned":
		return []byte(`{"unsigned":{"age":1,"filler":"` + strings.Repeat("u", 400) + `"},` + string(raw[1:]))
	case "age_ts":
		return []byte(`{"age_ts":1700000000000,"outlier":false,"destinations":["` + strings.Repeat("d", 100) + `"],` + string(raw[1:]))
	}
	return raw
}

var c17Filler = map[int]string{1: "a", 2: "é", 3: "€", 4: "😀"}

// c17Fill builds prefix+filler+suffix measuring exactly n in the given unit (prefix/suffix are ASCII).
func c17Fill(prefix, suffix, unit string, width, n int) string {
	k := len(prefix) + len(suffix)
	if n < k {
		n = k
	}
	r := c17Filler[width]
	if r == "" {
		r, width = "a", 1
	}
	if unit == "codepoints" {
		return prefix + strings.Repeat(r, n-k) + suffix
	}
	rem := n - k
	return prefix + strings.Repeat(r, rem/width) + strings.Repeat("a", rem%width) + suffix
}

type c17EventSpec struct {
	Type, Sender, RoomID string
	StateKey             *string
	Pad                  int
}

func c17Baseline(version string) c17EventSpec {
	e := c17EventSpec{Type: "c17.test", Sender: "@u:" + c17Origin, RoomID: "!r:" + c17Origin}
	if c17Table[version].Privileged {
		e.RoomID = "!" + strings.Repeat("A", 43)
	}
	if version == "org.matrix.msc4014" {
		e.Sender = spec.Base64Bytes(c17Key.Public().(ed25519.PublicKey)).Encode()
	}
	return e
}

func (e *c17EventSpec) set(f c17Field) {
	switch f.Name {
	case "type":
		e.Type = c17Fill("t.", "", f.Unit, f.Width, f.N)
	case "state_key":
		s := c17Fill("", "", f.Unit, f.Width, f.N)
		e.StateKey = &s
	case "sender":
		e.Sender = c17Fill("@", ":"+c17Origin, f.Unit, f.Width, f.N)
	case "room_id":
		e.RoomID = c17Fill("!", ":"+c17Origin, f.Unit, f.Width, f.N)
	}
}

func (e c17EventSpec) content() []byte {
	return []byte(`{"body":"` + strings.Repeat("p", e.Pad) + `"}`)
}

// c17ReceiptJSON produces the canonical, hashed and signed federation JSON of the event.
func c17ReceiptJSON(impl IRoomVersion, e c17EventSpec) ([]byte, error) {
	m := map[string]interface{}{
		"type": e.Type, "sender": e.Sender, "room_id": e.RoomID, "content": json.RawMessage(e.content()),
		"depth": 1, "origin": c17Origin, "origin_server_ts": c17Now.UnixMilli(),
		"prev_events": []interface{}{}, "auth_events": []interface{}{},
	}
	if e.StateKey != nil {
		m["state_key"] = *e.StateKey
	}
	if impl.EventFormat() == EventFormatV1 {
		m["event_id"] = "$c17:" + c17Origin
	}
	raw, err := json.Marshal(m)
	if err != nil {
		return nil, err
	}
	if raw, err = addContentHashesToEvent(raw); err != nil {
		return nil, err
	}
	if raw, err = signEvent(c17Origin, c17KeyID, c17Key, raw, impl.Version()); err != nil {
		return nil, err
	}
	return CanonicalJSON(raw)
}

func c17BuildEvent(impl IRoomVersion, e c17EventSpec) (PDU, error) {
	eb := impl.NewEventBuilderFromProtoEvent(&ProtoEvent{
		SenderID: e.Sender, RoomID: e.RoomID, Type: e.Type, StateKey: e.StateKey,
		Depth: 1, Content: spec.RawJSON(e.content()),
	})
	return eb.Build(c17Now, c17Origin, c17KeyID, c17Key)
}

// c17Outcome classifies what the library returned.
func c17Outcome(ev PDU, err error) (string, EventValidationError) {
	var eve EventValidationError
	isNil := ev == nil
	switch {
	case err == nil && isNil:
		return "no-error-no-event", eve
	case err == nil:
		return "accepted", eve
	case errors.As(err, &eve) && eve.Persistable && isNil:
		return "persistable-without-event", eve
	case errors.As(err, &eve) && eve.Persistable:
		return "persistable", eve
	default:
		return "refused", eve
	}
}

var c17FieldOrder = []string{"event", "type", "state_key", "sender", "room_id"}
var c17MaskOrder = []string{"room_id", "type", "state_key", "sender"}

func c17First(order []string, set map[string]bool) string {
	for _, n := range order {
		if set[n] {
			return n
		}
	}
	return "none"
}

func c17CheckLimits(ctx *vfCtx, c c17LimCase) {
	tr, known := c17Table[c.Version]
	impl, gerr := GetRoomVersion(RoomVersion(c.Version))
	if !known || gerr != nil {
		ctx.Fail("C17/limits/version-missing", "room version %q is not registered: %v", c.Version, gerr)
		return
	}
	if c.Path != "receipt" && c.Path != "build" {
		ctx.Unjudged("unknown path")
		return
	}
	ctx.NonTrivial()
	e := c17Baseline(c.Version)
	cpOver, byteOver, touched := map[string]bool{}, map[string]bool{}, map[string]bool{}
	for _, f := range c.Fields {
		e.set(f)
		touched[f.Name] = true
	}
	if c.AsCreate {
		if !tr.Privileged || c.Path != "receipt" || len(touched) != 1 || !touched["room_id"] {
			ctx.Unjudged("as_create outside its domain")
			return
		}
		empty := ""
		e.Type, e.StateKey = "m.room.create", &empty
		ctx.Class("room_id-carried-by-the-create-event")
	}
	measure := func(name, v string) {
		if utf8.RuneCountInString(v) > 255 {
			cpOver[name] = true
		} else if len(v) > 255 {
			byteOver[name] = true
		}
	}
	measure("type", e.Type)
	measure("sender", e.Sender)
	measure("room_id", e.RoomID)
	if e.StateKey != nil {
		measure("state_key", *e.StateKey)
	}
	if c.Size > 65536 {
		cpOver["event"] = true
	}
	for _, f := range c.Fields {
		over := "within"
		if cpOver[f.Name] {
			over = "over-codepoints"
		} else if byteOver[f.Name] {
			over = "over-bytes-only"
		}
		ctx.Class(fmt.Sprintf("field/%s/width%d/%s", f.Name, f.Width, over))
	}
	if c.Size > 0 {
		ctx.Class(fmt.Sprintf("event-size/%d", c.Size))
	}
	ctx.Class("path/" + c.Path)

	// variant: classes in which the version does not use this kind of identifier at all
	// (domainless versions have 44-byte room IDs, the pseudo-ID version has key senders)
	fieldVariant := func(name string) string {
		switch {
		case tr.Privileged && name == "room_id":
			return "domainless"
		case c.Version == "org.matrix.msc4014" && name == "sender":
			return "pseudo-id"
		}
		return ""
	}
	variant := ""
	for _, n := range c17MaskOrder {
		if touched[n] && fieldVariant(n) != "" {
			variant = "/" + fieldVariant(n)
		}
	}
	// pick the field that decides the signature: prefer one of the kind the version does use
	pick := func(order []string, set map[string]bool) string {
		plain := map[string]bool{}
		for n := range set {
			if fieldVariant(n) == "" {
				plain[n] = true
			}
		}
		if len(plain) > 0 {
			return c17First(order, plain)
		}
		return c17First(order, set)
	}

	// ---- run the library ----
	var ev PDU
	var err error
	sizeKnown := c.Size == 0
	if c.Path == "receipt" {
		raw, merr := c17ReceiptJSON(impl, e)
		if merr == nil && c.Size > 0 {
			e.Pad = c.Size - len(raw)
			if e.Pad >= 0 {
				raw, merr = c17ReceiptJSON(impl, e)
			}
			sizeKnown = merr == nil && len(raw) == c.Size
		}
		if merr != nil {
			ctx.Class("harness/could-not-make-event")
			ctx.Unjudged("harness could not construct the event: " + merr.Error())
			return
		}
		if !sizeKnown {
			ctx.Class("harness/size-miss")
			ctx.Unjudged("harness could not hit the requested event size")
			return
		}
		if c.BadHash && c.Size == 0 {
			if tampered, terr := sjson.SetBytes(raw, "content.c17_tampered", 1); terr == nil {
				raw = tampered
				ctx.Class("receipt/content-hash-mismatch")
			}
		}
		if c.Wire != "" {
			wire := c17Wire(raw, c.Wire)
			if len(wire) == len(raw) {
				ctx.Class("harness/wire-spelling-not-applicable")
			} else {
				ctx.Class("wire/" + c.Wire)
				if len(wire) > 65536 && len(raw) <= 65536 {
					ctx.Class("wire/over-65536-canonical-within")
				}
				raw = wire
			}
		}
		if vfCatch(ctx, "C17/limits", func() { ev, err = impl.NewEventFromUntrustedJSON(raw) }) {
			return
		}
		// the bulk receipt path (state / auth events of /send_join and /state answers) keeps exactly the
		// events the single-event path returns: accepted ones and "too large but persistable" ones
		var bulk []PDU
		if vfCatch(ctx, "C17/limits/bulk", func() {
			bulk = EventJSONs{append(spec.RawJSON(nil), raw...)}.UntrustedEvents(RoomVersion(c.Version))
		}) {
			return
		}
		single, _ := c17Outcome(ev, err)
		kept := 0
		for _, b := range bulk {
			if b != nil {
				kept++
			}
		}
		wantKept := 0
		if single == "accepted" || single == "persistable" {
			wantKept = 1
		}
		if kept != wantKept || len(bulk) != wantKept {
			ctx.Fail("C17/limits/bulk-receipt-differs/"+single, "%s: NewEventFromUntrustedJSON says %s, EventJSONs.UntrustedEvents keeps %d of 1 (%d entries)", c.Version, single, kept, len(bulk))
		}
	} else {
		if c.Size > 0 {
			// measure with short fields of the same structure, then pad analytically
			probe := c17Baseline(c.Version)
			if e.StateKey != nil {
				empty := ""
				probe.StateKey = &empty
			}
			var pev PDU
			var perr error
			if vfCatch(ctx, "C17/limits", func() { pev, perr = c17BuildEvent(impl, probe) }) {
				return
			}
			if perr != nil || pev == nil {
				ctx.Class("harness/could-not-make-event")
				ctx.Unjudged("harness could not build the baseline event")
				return
			}
			n := len(pev.JSON()) + len(e.Type) - len(probe.Type) + len(e.Sender) - len(probe.Sender) + len(e.RoomID) - len(probe.RoomID)
			if e.StateKey != nil {
				n += len(*e.StateKey)
			}
			e.Pad = c.Size - n
			if e.Pad < 0 {
				ctx.Class("harness/size-miss")
				ctx.Unjudged("harness could not hit the requested event size")
				return
			}
		}
		if vfCatch(ctx, "C17/limits", func() { ev, err = c17BuildEvent(impl, e) }) {
			return
		}
		if c.Size > 0 && ev != nil && len(ev.JSON()) != c.Size {
			ctx.Class("harness/size-miss")
			ctx.Unjudged("harness could not hit the requested event size")
			return
		}
	}
	got, eve := c17Outcome(ev, err)
	ctx.Class("got/" + got)
	desc := fmt.Sprintf("version %s, %s, fields %+v, size %d", c.Version, c.Path, c.Fields, c.Size)

	// ---- judge ----
	unchecked := func(f string) {
		ctx.Fail("C17/limits/length-unchecked/"+f+"/"+fieldVariant(f),
			"%s: the length of %s is not limited at all in this version (result %s, err %v); the statement's limits apply to every registered version", desc, f, got, err)
	}
	switch {
	case len(cpOver) > 0:
		ctx.Class("expect/refuse")
		f := pick(c17FieldOrder, cpOver)
		switch {
		case got == "refused":
		case got == "persistable" || got == "persistable-without-event":
			// Every field over a hard limit was passed over in favour of a lenient byte-length
			// error. One finding per such field; the signature names BOTH the field whose
			// byte-length error was returned (exact when only one field is over the byte limit,
			// as in every enumerated pair) and the hard-limit field it hides.
			mask := pick(c17MaskOrder, byteOver)
			hard := make([]string, 0, len(cpOver))
			for _, h := range c17FieldOrder {
				if cpOver[h] {
					hard = append(hard, h)
				}
			}
			for _, h := range hard {
				if fieldVariant(h) != "" {
					unchecked(h)
					continue
				}
				name := h
				if h == "event" {
					name = "event-size"
				}
				ctx.Fail("C17/limits/persistable-despite-excess/masked-by-"+mask+"/hard-"+name,
					"%s: %s exceeds the hard limit (255 code points / 65536 bytes) but the error is Persistable (%q): the byte-length error of %s was returned first", desc, name, eve.Message, mask)
			}
		case fieldVariant(f) != "":
			unchecked(f)
		default:
			ctx.Fail("C17/limits/not-refused/"+f+"/"+c.Path, "%s: %s exceeds the hard limit but the result is %s (err %v)", desc, f, got, err)
		}
	case len(byteOver) > 0:
		ctx.Class("expect/persistable")
		f := pick(c17MaskOrder, byteOver)
		switch got {
		case "persistable":
			if eve.Code != EventValidationTooLarge {
				ctx.Fail("C17/limits/persistable-wrong-code/"+f+"/"+c.Path, "%s: persistable error has code %d, expected EventValidationTooLarge", desc, eve.Code)
			}
		case "persistable-without-event":
			ctx.Fail("C17/limits/persistable-without-event/"+f+"/"+c.Path, "%s: %s exceeds only the 255-byte limit; the error is Persistable (%q) but no event is returned to persist", desc, f, eve.Message)
		case "refused":
			ctx.Fail("C17/limits/byte-excess-refused/"+f+"/"+c.Path, "%s: %s exceeds only the 255-byte limit but the event is refused outright: %v", desc, f, err)
		default:
			if fieldVariant(f) != "" {
				unchecked(f)
			} else {
				ctx.Fail("C17/limits/byte-excess-not-reported/"+f+"/"+c.Path, "%s: %s exceeds the 255-byte limit but the result is %s", desc, f, got)
			}
		}
	default:
		if variant != "" {
			ctx.Class("expect/unjudged" + variant)
			ctx.Unjudged("within limits, but not an identifier of the kind this version uses (" + variant[1:] + "): acceptance not judged")
			break
		}
		ctx.Class("expect/accept")
		if got != "accepted" {
			ctx.Fail("C17/limits/within-limits-not-accepted/"+c.Path, "%s: every limit is respected but the result is %s (err %v)", desc, got, err)
		}
	}
	// a returned event that is meant to be used must carry the fields it was made from
	if ev != nil && (got == "accepted" || got == "persistable") {
		vfCatch(ctx, "C17/limits", func() {
			var m struct {
				Type     string  `json:"type"`
				Sender   string  `json:"sender"`
				RoomID   string  `json:"room_id"`
				StateKey *string `json:"state_key"`
			}
			if uerr := json.Unmarshal(ev.JSON(), &m); uerr != nil {
				ctx.Fail("C17/limits/event-json", "%s: returned event JSON does not parse: %v", desc, uerr)
				return
			}
			same := m.Type == e.Type && m.Sender == e.Sender && m.RoomID == e.RoomID && ev.Type() == e.Type && string(ev.SenderID()) == e.Sender
			if (m.StateKey == nil) != (e.StateKey == nil) || (e.StateKey != nil && (*m.StateKey != *e.StateKey || ev.StateKey() == nil || *ev.StateKey() != *e.StateKey)) {
				same = false
			}
			if !same {
				ctx.Fail("C17/limits/fields-changed/"+c.Path, "%s: the returned event does not carry the fields it was made from", desc)
			}
		})
	}
}

func c17EnumLimits(size, shard, nshards int, emit func(c17LimCase)) {
	if size < 1 {
		size = 1
	}
	idx := 0
	out := func(c c17LimCase) {
		if idx%nshards == shard {
			emit(c)
		}
		idx++
	}
	names := []string{"type", "state_key", "sender", "room_id"}
	for _, ver := range c17Versions {
		for _, path := range []string{"receipt", "build"} {
			// single fields around the limit in both units
			for _, name := range names {
				for width := 1; width <= 4; width++ {
					for _, unit := range []string{"bytes", "codepoints"} {
						if width == 1 && unit == "codepoints" {
							continue // identical strings
						}
						for n := 255 - size; n <= 255+size; n++ {
							out(c17LimCase{Version: ver, Path: path, Fields: []c17Field{{name, unit, width, n}}})
							if path == "receipt" {
								out(c17LimCase{Version: ver, Path: path, Fields: []c17Field{{name, unit, width, n}}, BadHash: true})
								if name == "room_id" && c17Table[ver].Privileged {
									out(c17LimCase{Version: ver, Path: path, Fields: []c17Field{{name, unit, width, n}}, AsCreate: true})
								}
							}
						}
					}
				}
			}
			// whole-event size
			for n := 65536 - size; n <= 65536+size; n++ {
				out(c17LimCase{Version: ver, Path: path, Size: n})
			}
			// whole-event size in other wire spellings (the receipt path only)
			if path == "receipt" {
				for _, wire := range []string{"padded", "escaped", "unsigned", "age_ts"} {
					for _, n := range []int{65536 - 200, 65536 - 1, 65536, 65537} {
						out(c17LimCase{Version: ver, Path: path, Size: n, Wire: wire})
					}
				}
			}
			// the complete pair product: each field over the byte limit only x each field over the
			// code-point limit (ASCII and multi-byte filler) and x the whole event over its size limit
			for _, a := range names {
				for _, b := range names {
					if a != b {
						out(c17LimCase{Version: ver, Path: path, Fields: []c17Field{{a, "bytes", 2, 256}, {b, "codepoints", 1, 256}}})
						out(c17LimCase{Version: ver, Path: path, Fields: []c17Field{{a, "bytes", 3, 257}, {b, "codepoints", 2, 256}}})
					}
				}
				out(c17LimCase{Version: ver, Path: path, Fields: []c17Field{{a, "bytes", 3, 257}}, Size: 65537})
				out(c17LimCase{Version: ver, Path: path, Fields: []c17Field{{a, "bytes", 2, 256}}, Size: 65537})
				out(c17LimCase{Version: ver, Path: path, Fields: []c17Field{{a, "bytes", 3, 257}}, Size: 65536})
			}
		}
	}
}

func c17GenLimits(t *rapid.T) c17LimCase {
	c := c17LimCase{Version: rapid.SampledFrom(c17Versions).Draw(t, "version"), Path: rapid.SampledFrom([]string{"receipt", "build"}).Draw(t, "path")}
	names := []string{"type", "state_key", "sender", "room_id"}
	for _, n := range names {
		if rapid.IntRange(0, 2).Draw(t, "touch") != 0 {
			continue
		}
		c.Fields = append(c.Fields, c17Field{Name: n, Unit: rapid.SampledFrom([]string{"bytes", "codepoints"}).Draw(t, "unit"),
			Width: rapid.IntRange(1, 4).Draw(t, "width"), N: rapid.IntRange(250, 260).Draw(t, "n")})
	}
	if rapid.IntRange(0, 3).Draw(t, "sized") == 0 {
		c.Size = rapid.IntRange(65530, 65542).Draw(t, "size")
	}
	if c.Path == "receipt" && c.Size == 0 {
		c.BadHash = rapid.IntRange(0, 2).Draw(t, "badHash") == 0
	}
	if c.Path == "receipt" && rapid.IntRange(0, 3).Draw(t, "respelt") == 0 {
		c.Wire = rapid.SampledFrom([]string{"padded", "escaped", "unsigned", "age_ts"}).Draw(t, "wire")
	}
	return c
}

// ---------------------------------------------------------------------------------------------
// (d) version table

type c17VTCase struct {
	Version string `json:"version"` // a version name, or "*registry*" for the completeness check
}

const c17RedactionProbe = `{"type":%q,"room_id":"!r:h.test","sender":"@u:h.test","state_key":"","event_id":"$e:h.test","origin":"h.test","origin_server_ts":1,"depth":1,"prev_events":[],"auth_events":[],"prev_state":[],"membership":"join","hashes":{"sha256":"x"},"signatures":{},"c17_extra":1,"content":%s}`

// c17RedactionAlgorithm identifies the redaction algorithm from what it keeps of four events.
func c17RedactionAlgorithm(ctx *vfCtx, impl IRoomVersion) string {
	redact := func(typ, content string) (map[string]json.RawMessage, map[string]json.RawMessage) {
		var out []byte
		var err error
		if vfCatch(ctx, "C17/version-table", func() { out, err = impl.RedactEventJSON([]byte(fmt.Sprintf(c17RedactionProbe, typ, content))) }) || err != nil {
			return nil, nil
		}
		var top, cont map[string]json.RawMessage
		if json.Unmarshal(out, &top) != nil || json.Unmarshal(top["content"], &cont) != nil {
			return nil, nil
		}
		return top, cont
	}
	has := func(m map[string]json.RawMessage, k string) bool { _, ok := m[k]; return ok }
	topA, aliases := redact("m.room.aliases", `{"aliases":["#a:h.test"],"x":1}`)
	_, jr := redact("m.room.join_rules", `{"join_rule":"restricted","allow":[{"type":"m.room_membership","room_id":"!o:h.test"}],"x":1}`)
	_, member := redact("m.room.member", `{"membership":"join","join_authorised_via_users_server":"@a:h.test","displayname":"d"}`)
	_, create := redact("m.room.create", `{"creator":"@u:h.test","room_version":"1","x":1}`)
	_, pl := redact("m.room.power_levels", `{"invite":5,"ban":1,"x":1}`)
	_, red := redact("m.room.redaction", `{"redacts":"$x","reason":"r"}`)
	_, tpiMember := redact("m.room.member", `{"membership":"invite","third_party_invite":{"display_name":"d","signed":{"mxid":"@u:h.test","token":"t","signatures":{}},"x":1}}`)
	tpi := "other"
	if tpiMember != nil {
		var inner map[string]json.RawMessage
		switch raw, ok := tpiMember["third_party_invite"]; {
		case !ok:
			tpi = "absent"
		case json.Unmarshal(raw, &inner) == nil && len(inner) == 1 && has(inner, "signed") && c17SameJSON(inner["signed"], `{"mxid":"@u:h.test","token":"t","signatures":{}}`):
			tpi = "signed-only"
		}
	}
	if topA == nil || aliases == nil || jr == nil || member == nil || create == nil || pl == nil || red == nil {
		return "error"
	}
	// invariants of every algorithm
	if !has(jr, "join_rule") || !has(member, "membership") || !has(pl, "ban") || has(jr, "x") || has(member, "displayname") || has(pl, "x") || has(red, "reason") ||
		has(topA, "c17_extra") || !has(topA, "type") || !has(topA, "hashes") || !has(topA, "depth") {
		return "broken"
	}
	v11flags := 0
	if has(create, "x") {
		v11flags++
	}
	if has(pl, "invite") {
		v11flags++
	}
	if has(red, "redacts") {
		v11flags++
	}
	if !has(topA, "origin") && !has(topA, "membership") && !has(topA, "prev_state") {
		v11flags++
	}
	key := fmt.Sprintf("aliases=%v allow=%v authorised=%v v11=%d/4 tpi=%s", has(aliases, "aliases"), has(jr, "allow"), has(member, "join_authorised_via_users_server"), v11flags, tpi)
	switch key {
	case "aliases=true allow=false authorised=false v11=0/4 tpi=absent":
		return "v1"
	case "aliases=false allow=false authorised=false v11=0/4 tpi=absent":
		return "v6"
	case "aliases=false allow=true authorised=false v11=0/4 tpi=absent":
		return "v8"
	case "aliases=false allow=true authorised=true v11=0/4 tpi=absent":
		return "v9"
	case "aliases=false allow=true authorised=true v11=4/4 tpi=signed-only":
		return "v11"
	}
	return "unknown(" + key + ")"
}

func c17SameJSON(a json.RawMessage, b string) bool {
	var x, y interface{}
	return json.Unmarshal(a, &x) == nil && json.Unmarshal([]byte(b), &y) == nil && reflect.DeepEqual(x, y)
}

func c17Alphabet(s, alpha string) bool {
	for i := 0; i < len(s); i++ {
		if strings.IndexByte(alpha, s[i]) < 0 {
			return false
		}
	}
	return true
}

const c17Alnum = "ABCDEFGHIJKLMNOPQRSTUVWXYZabcdefghijklmnopqrstuvwxyz0123456789"

func c17B64(b []byte, alpha string) string {
	var out []byte
	var acc uint32
	bits := 0
	for _, x := range b {
		acc = acc<<8 | uint32(x)
		bits += 8
		for bits >= 6 {
			bits -= 6
			out = append(out, alpha[acc>>uint(bits)&63])
		}
	}
	if bits > 0 {
		out = append(out, alpha[acc<<uint(6-bits)&63])
	}
	return string(out)
}

// c17CheckBuiltFormat builds events for the version and checks that they have its format.
func c17CheckBuiltFormat(ctx *vfCtx, ver string, tr c17Traits, impl IRoomVersion) {
	fail := func(what, format string, args ...any) {
		ctx.Fail("C17/version-table/built-format/"+what+"/"+ver, "version %s: "+format, append([]any{ver}, args...)...)
	}
	base := c17Baseline(ver)
	prev := []string{"$prev1:" + c17Origin, "$prev2:" + c17Origin}
	auth := []string{"$auth1:" + c17Origin}
	if tr.EventFormat == 2 {
		prev = []string{"$" + strings.Repeat("B", 43), "$" + strings.Repeat("C", 43)}
		auth = []string{"$" + strings.Repeat("D", 43)}
	}
	alpha := c17Alnum
	switch tr.IDFormat {
	case 2:
		alpha += "+/"
	case 3:
		alpha += "-_"
	}
	sawSymbol := false
	for i := 0; i < 24; i++ {
		var ev PDU
		var err error
		if vfCatch(ctx, "C17/version-table", func() {
			eb := impl.NewEventBuilderFromProtoEvent(&ProtoEvent{SenderID: base.Sender, RoomID: base.RoomID, Type: "c17.test",
				Depth: 2, Content: spec.RawJSON(fmt.Sprintf(`{"n":%d}`, i)), PrevEvents: prev, AuthEvents: auth})
			ev, err = eb.Build(c17Now, c17Origin, c17KeyID, c17Key)
		}) {
			return
		}
		if err != nil || ev == nil {
			fail("build", "Build of a plain event failed: %v", err)
			return
		}
		var m map[string]json.RawMessage
		if json.Unmarshal(ev.JSON(), &m) != nil {
			fail("json", "built event is not a JSON object: %s", ev.JSON())
			return
		}
		var id string
		if vfCatch(ctx, "C17/version-table", func() { id = ev.EventID() }) {
			return
		}
		_, hasID := m["event_id"]
		var refs [][]json.RawMessage
		var ids []string
		isRefs := json.Unmarshal(m["prev_events"], &refs) == nil
		isIDs := json.Unmarshal(m["prev_events"], &ids) == nil
		var arefs [][]json.RawMessage
		var aids []string
		aIsRefs := json.Unmarshal(m["auth_events"], &arefs) == nil
		aIsIDs := json.Unmarshal(m["auth_events"], &aids) == nil
		switch tr.EventFormat {
		case 1:
			var jid string
			_ = json.Unmarshal(m["event_id"], &jid)
			if !hasID || jid != id {
				fail("event_id-field", "event format 1 carries its ID in the event_id field; JSON has %q, EventID() = %q", m["event_id"], id)
			}
			if !isRefs || len(refs) != 2 || !aIsRefs || len(arefs) != 1 {
				fail("references", "event format 1 lists prev/auth events as [id, hashes] references; got prev_events %s auth_events %s", m["prev_events"], m["auth_events"])
			} else {
				var p0 string
				if len(refs[0]) != 2 || json.Unmarshal(refs[0][0], &p0) != nil || p0 != prev[0] {
					fail("references", "first prev_events reference is %s, expected [%q, {...}]", m["prev_events"], prev[0])
				}
			}
		case 2:
			if hasID {
				fail("event_id-field", "event format 2 has no event_id field; JSON has %s", m["event_id"])
			}
			if !isIDs || len(ids) != 2 || ids[0] != prev[0] || ids[1] != prev[1] || !aIsIDs || len(aids) != 1 || aids[0] != auth[0] {
				fail("references", "event format 2 lists prev/auth events as event IDs; got prev_events %s auth_events %s", m["prev_events"], m["auth_events"])
			}
		}
		if got := ev.PrevEventIDs(); len(got) != 2 || got[0] != prev[0] || got[1] != prev[1] {
			fail("prev-ids", "PrevEventIDs() = %v, expected %v", got, prev)
		}
		if ev.Version() != RoomVersion(ver) {
			fail("version", "built event reports version %q", ev.Version())
		}
		switch tr.IDFormat {
		case 1:
			if !strings.HasPrefix(id, "$") || !strings.HasSuffix(id, ":"+c17Origin) || len(id) < len(c17Origin)+3 || strings.Count(id, ":") != 1 {
				fail("event-id", "event ID %q is not of the form $opaque:%s", id, c17Origin)
			}
		default:
			if len(id) != 44 || id[0] != '$' || !c17Alphabet(id[1:], alpha) {
				fail("event-id", "event ID %q is not \"$\" + 43 characters of the version's base64 alphabet", id)
			}
			if len(id) > 1 && !c17Alphabet(id[1:], c17Alnum) {
				sawSymbol = true
			}
			// independent recomputation: "$" + base64(sha256(canonical(redacted event without signatures/unsigned)))
			var red []byte
			var rerr error
			if vfCatch(ctx, "C17/version-table", func() { red, rerr = impl.RedactEventJSON(ev.JSON()) }) {
				return
			}
			var rm map[string]json.RawMessage
			if rerr == nil && json.Unmarshal(red, &rm) == nil {
				delete(rm, "signatures")
				delete(rm, "unsigned")
				raw, _ := json.Marshal(rm)
				if canon, cerr := CanonicalJSON(raw); cerr == nil {
					sum := sha256.Sum256(canon)
					if want := "$" + c17B64(sum[:], alpha); want != id {
						fail("event-id", "event ID %q is not the reference hash in the version's alphabet (%q)", id, want)
					}
				}
			}
		}
		if tr.IDFormat == 1 && i >= 1 {
			break
		}
		if tr.IDFormat != 1 && sawSymbol && i >= 3 {
			break
		}
	}
	if tr.IDFormat != 1 && !sawSymbol {
		ctx.Unjudged("no built event ID contained a symbol that distinguishes the two base64 alphabets")
	}

	// create event: room ID = create event ID in domainless versions
	empty := ""
	content := spec.RawJSON(`{"creator":"@u:h.test","room_version":"` + ver + `"}`)
	mk := func(roomID string) (PDU, error, bool) {
		var ev PDU
		var err error
		p := vfCatch(ctx, "C17/version-table", func() {
			eb := impl.NewEventBuilderFromProtoEvent(&ProtoEvent{SenderID: base.Sender, RoomID: roomID, Type: spec.MRoomCreate, StateKey: &empty, Depth: 1, Content: content})
			ev, err = eb.Build(c17Now, c17Origin, c17KeyID, c17Key)
		})
		return ev, err, p
	}
	if tr.Privileged {
		ev, err, p := mk("")
		if p {
			return
		}
		if err != nil || ev == nil {
			fail("create", "Build of a create event without room ID failed: %v", err)
		} else {
			var m map[string]json.RawMessage
			_ = json.Unmarshal(ev.JSON(), &m)
			if _, has := m["room_id"]; has {
				fail("create", "create event of a domainless version carries room_id %s", m["room_id"])
			}
			vfCatch(ctx, "C17/version-table", func() {
				if rid := ev.RoomID().String(); rid != "!"+ev.EventID()[1:] {
					fail("create", "create event %q reports room ID %q, expected \"!\" + the event ID without sigil", ev.EventID(), rid)
				}
			})
		}
		if ev2, err2, p2 := mk("!r:" + c17Origin); !p2 && err2 == nil {
			fail("create", "Build of a create event WITH a room ID succeeded in a domainless version: %s", ev2.JSON())
		}
	} else {
		ev, err, p := mk("!r:" + c17Origin)
		if p {
			return
		}
		if err != nil || ev == nil {
			fail("create", "Build of a create event failed: %v", err)
		} else {
			vfCatch(ctx, "C17/version-table", func() {
				if rid := ev.RoomID().String(); rid != "!r:"+c17Origin {
					fail("create", "create event reports room ID %q", rid)
				}
			})
		}
	}
}

// c17CustomVersion is room version 10 under another name (what SetRoomVersion exists for).
type c17CustomVersion struct{ IRoomVersion }

func (c17CustomVersion) Version() RoomVersion { return "org.example.c17.custom" }

func c17CheckVersionTable(ctx *vfCtx, c c17VTCase) {
	ctx.NonTrivial()
	if c.Version == "*set-room-version*" {
		// the table follows the registry: a version registered with SetRoomVersion AFTER the table has
		// been consulted is reported by every view of it (this case comes last: the registry of this
		// process is changed by it)
		ctx.Class("registry/set-room-version")
		base, err := GetRoomVersion("10")
		if err != nil {
			ctx.Unjudged("room version 10 is not registered")
			return
		}
		before := len(RoomVersions())
		stableBefore := len(StableRoomVersions())
		custom := c17CustomVersion{base}
		if vfCatch(ctx, "C17/version-table", func() { SetRoomVersion(custom) }) {
			return
		}
		_, inTable := RoomVersions()[custom.Version()]
		_, inStable := StableRoomVersions()[custom.Version()]
		got, gerr := GetRoomVersion(custom.Version())
		switch {
		case !inTable || len(RoomVersions()) != before+1:
			ctx.Fail("C17/version-table/registry/registered-version-missing", "after SetRoomVersion(%q) RoomVersions() has %d entries (%d before) and lists it: %v", custom.Version(), len(RoomVersions()), before, inTable)
		case inStable != custom.Stable() || len(StableRoomVersions()) != stableBefore+1:
			ctx.Fail("C17/version-table/registry/registered-version-missing/stable", "after SetRoomVersion of a stable version StableRoomVersions() has %d entries (%d before) and lists it: %v", len(StableRoomVersions()), stableBefore, inStable)
		case gerr != nil || got == nil || !KnownRoomVersion(custom.Version()) || !StableRoomVersion(custom.Version()):
			ctx.Fail("C17/version-table/registry/registered-version-unknown", "after SetRoomVersion(%q): GetRoomVersion error %v, KnownRoomVersion %v", custom.Version(), gerr, KnownRoomVersion(custom.Version()))
		}
		return
	}
	if c.Version == "*registry*" {
		ctx.Class("registry")
		var got, want, stable []string
		for v := range RoomVersions() {
			got = append(got, string(v))
		}
		for v := range StableRoomVersions() {
			stable = append(stable, string(v))
		}
		var wantStable []string
		for v, tr := range c17Table {
			want = append(want, v)
			if tr.Stable {
				wantStable = append(wantStable, v)
			}
		}
		sort.Strings(got)
		sort.Strings(want)
		sort.Strings(stable)
		sort.Strings(wantStable)
		if strings.Join(got, ",") != strings.Join(want, ",") {
			ctx.Fail("C17/version-table/registry", "registered versions %v, expected %v", got, want)
		}
		if strings.Join(stable, ",") != strings.Join(wantStable, ",") {
			ctx.Fail("C17/version-table/stable-set", "StableRoomVersions() = %v, expected %v", stable, wantStable)
		}
		for _, v := range []string{"", "0", "13", "org.matrix.msc0000", "1 "} {
			if _, err := GetRoomVersion(RoomVersion(v)); err == nil || KnownRoomVersion(RoomVersion(v)) || StableRoomVersion(RoomVersion(v)) {
				ctx.Fail("C17/version-table/registry", "unregistered version %q is reported as known", v)
			}
		}
		return
	}
	ver := c.Version
	tr, ok := c17Table[ver]
	impl, err := GetRoomVersion(RoomVersion(ver))
	if !ok || err != nil {
		ctx.Fail("C17/version-table/registry", "version %q: not in the table / not registered (%v)", ver, err)
		return
	}
	ctx.Class("version/" + ver)
	cell := func(col string, got, want any) {
		if fmt.Sprint(got) != fmt.Sprint(want) {
			ctx.Fail("C17/version-table/"+col+"/"+ver, "version %s: %s is %v, the specification assigns %v", ver, col, got, want)
		}
	}
	probe := func(f func()) bool { return !vfCatch(ctx, "C17/version-table", f) }

	// ---- getters ----
	probe(func() {
		cell("version", impl.Version(), ver)
		cell("stable", impl.Stable(), tr.Stable)
		cell("stable", StableRoomVersion(RoomVersion(ver)), tr.Stable)
		cell("known", KnownRoomVersion(RoomVersion(ver)), true)
		cell("state-res", int(impl.StateResAlgorithm()), tr.StateRes)
		cell("event-format", int(impl.EventFormat()), tr.EventFormat)
		cell("event-id-format", int(impl.EventIDFormat()), tr.IDFormat)
		cell("privileged-creators", impl.PrivilegedCreators(), tr.Privileged)
		cell("domainless-room-ids", impl.DomainlessRoomIDs(), tr.Privileged)
	})
	// the numbering of the constants is part of what the getters mean
	cell("constants", fmt.Sprint(int(StateResV1), int(StateResV2), int(StateResV2_1), int(EventFormatV1), int(EventFormatV2), int(EventIDFormatV1), int(EventIDFormatV2), int(EventIDFormatV3)), "1 2 3 1 2 1 2 3")

	// ---- key validity ----
	probe(func() {
		// a key whose validity ended (long ago) before the event's timestamp
		cell("key-validity", impl.SignatureValidityCheck(2000, 1000), !tr.StrictValidity)
		// inside the validity window: always fine
		cell("key-validity-in-window", impl.SignatureValidityCheck(500, 1000), true)
		// the boundary: valid_until_ts must be at least as large as origin_server_ts
		cell("key-validity-at-valid-until", impl.SignatureValidityCheck(1000, 1000), true)
		cell("key-validity-at-valid-until", impl.SignatureValidityCheck(999, 1000), true)
		cell("key-validity-just-past-valid-until", impl.SignatureValidityCheck(1001, 1000), !tr.StrictValidity)
		// strict rule: validity is capped at 7 days from now (margins: 30 / 60 days)
		now := time.Now()
		at, until := spec.AsTimestamp(now.Add(30*24*time.Hour)), spec.AsTimestamp(now.Add(60*24*time.Hour))
		cell("key-validity-7-days", impl.SignatureValidityCheck(at, until), !tr.StrictValidity)
		at = spec.AsTimestamp(now.Add(24 * time.Hour))
		cell("key-validity-in-window", impl.SignatureValidityCheck(at, until), true)
	})
	// ---- canonical JSON enforcement ----
	probe(func() {
		cell("canonical-json", impl.CheckCanonicalJSON([]byte(`{"a":[1.5]}`)) != nil, tr.CanonicalJSON)
		cell("canonical-json", impl.CheckCanonicalJSON([]byte(`{"a":9007199254740992}`)) != nil, tr.CanonicalJSON)
		cell("canonical-json", impl.CheckCanonicalJSON([]byte(`{"a":{"b":1e2}}`)) != nil, tr.CanonicalJSON)
		// (the offending number nested, well-formed integers after it at the enclosing levels - as in every event)
		cell("canonical-json", impl.CheckCanonicalJSON([]byte(`{"content":{"x":[{"y":1.5}],"z":2},"depth":7,"origin_server_ts":1700000000000}`)) != nil, tr.CanonicalJSON)
		cell("canonical-json", impl.CheckCanonicalJSON([]byte(`{"content":{"x":-0},"depth":7}`)) != nil, tr.CanonicalJSON)
		cell("canonical-json", impl.CheckCanonicalJSON([]byte(`{"unsigned":{"age":1.5},"depth":7}`)) != nil, tr.CanonicalJSON)
		cell("canonical-json-integers", impl.CheckCanonicalJSON([]byte(`{"a":[1,-5,9007199254740991],"b":"1.5"}`)) != nil, false)
	})
	// ---- power-level parsing ----
	probe(func() {
		var pl PowerLevelContent
		perr := impl.ParsePowerLevels([]byte(`{"ban":"50"}`), &pl)
		cell("integer-power-levels", perr != nil, tr.IntegerPL)
		if !tr.IntegerPL && perr == nil {
			cell("power-level-string-value", pl.Ban, 50)
		}
		var pl2 PowerLevelContent
		perr = impl.ParsePowerLevels([]byte(`{"ban":50,"users":{"@u:h.test":100}}`), &pl2)
		cell("power-level-integers", fmt.Sprint(perr, pl2.Ban, pl2.Users["@u:h.test"]), "<nil> 50 100")
		var pl3 PowerLevelContent
		cell("integer-power-levels", impl.ParsePowerLevels([]byte(`{"users":{"@u:h.test":"100"}}`), &pl3) != nil, tr.IntegerPL)
		// integer levels are reported as written, also where no float64 holds them exactly (such
		// integers are legal wherever canonical JSON is not enforced; the parsers do not look at the range)
		var pl4 PowerLevelContent
		perr = impl.ParsePowerLevels([]byte(`{"ban":9007199254740993,"kick":-9007199254740993,"users":{"@u:h.test":9223372036854775807},"events":{"m.x":4611686018427387905}}`), &pl4)
		cell("power-level-large-integers", fmt.Sprint(perr, pl4.Ban, pl4.Kick, pl4.Users["@u:h.test"], pl4.Events["m.x"]), "<nil> 9007199254740993 -9007199254740993 9223372036854775807 4611686018427387905")
	})
	// ---- knocking ----
	probe(func() {
		u := "@k:h.test"
		cell("knock", impl.CheckKnockingAllowed(ver, u, u, "knock", "leave") == nil, tr.Knock)
		cell("knock-other-join-rule", impl.CheckKnockingAllowed(ver, u, u, "invite", "leave") == nil, false)
		cell("knock-other-join-rule", impl.CheckKnockingAllowed(ver, u, u, "public", "leave") == nil, false)
		kr := impl.CheckKnockingAllowed(ver, u, u, "knock_restricted", "leave") == nil
		switch tr.KnockRestricted {
		case "early":
			ctx.Unjudged("knock under knock_restricted in a version older than 10: the library documents that it honours MSC3787 early (departure D7)")
		default:
			cell("knock-restricted", kr, tr.KnockRestricted == "yes")
		}
	})
	// ---- restricted joins ----
	probe(func() {
		cell("restricted-join", impl.CheckRestrictedJoinsAllowed() == nil, tr.Restricted)
	})
	probe(func() {
		sn, serr := impl.RestrictedJoinServername([]byte(`{"membership":"join","join_authorised_via_users_server":"@a:auth.test"}`))
		want := ""
		if tr.Restricted {
			want = "auth.test"
		}
		cell("restricted-join-servername", fmt.Sprint(sn, serr), fmt.Sprint(want, error(nil)))
		// the server name is everything after the first colon: ports and address literals included
		for _, name := range []string{"auth.test:8448", "1.2.3.4:443", "[2001:db8::1]:8448", "hs1:8008", "[::1]", "AUTH.Test"} {
			sn, serr := impl.RestrictedJoinServername([]byte(`{"membership":"join","join_authorised_via_users_server":"@a:` + name + `"}`))
			want := ""
			if tr.Restricted {
				want = name
			}
			cell("restricted-join-servername/with-port-or-literal", fmt.Sprint(sn, serr), fmt.Sprint(want, error(nil)))
		}
	})
	// ---- redaction algorithm ----
	cell("redaction", c17RedactionAlgorithm(ctx, impl), tr.Redaction)
	// ---- events built for the version have its format ----
	c17CheckBuiltFormat(ctx, ver, tr, impl)
}

func c17EnumVersions(size, shard, nshards int, emit func(c17VTCase)) {
	all := append([]string{"*registry*"}, c17Versions...)
	// versions registered but missing from the transcribed table are walked too (and fail there)
	var extra []string
	for v := range RoomVersions() {
		if _, ok := c17Table[string(v)]; !ok {
			extra = append(extra, string(v))
		}
	}
	sort.Strings(extra)
	all = append(all, extra...)
	all = append(all, "*set-room-version*") // last: it adds to the registry of this process
	for i, v := range all {
		if i%nshards == shard {
			emit(c17VTCase{Version: v})
		}
	}
}

func init() {
	ruleL := "non-trivial = every case: a limited field (type, state_key, sender, room_id) within +/-1 (thorough: +/-3) of the 255 limit measured in bytes or in code points with 1/2/3/4-byte filler runes, or the whole event within +/-1 of 65536 bytes, or the complete pair product (each field over the byte limit only x each other field over the code-point limit, and x the whole event over 65536 bytes); x 16 room versions x {receipt, build}. distinct = distinct Case JSON."
	vfEnum("C17/limits", ruleL, 1, 3, 4, c17EnumLimits, c17CheckLimits)
	vfRapid("C17/limits-mixed", ruleL+" The mixed variant draws 0-4 fields at 250..260 and optionally an event size 65530..65542.", 1500, 40000, 8, c17GenLimits, c17CheckLimits)
	ruleV := "non-trivial = every case: one row of the complete room-version table (16 registered versions + the registry itself), all columns."
	vfEnum("C17/version-table", ruleV, 1, 1, 1, c17EnumVersions, c17CheckVersionTable)
}
