//go:build verif

// C14/state-response and C14/send-join: CheckStateResponse / CheckSendJoinResponse on /state and
// /send_join answers built from signed room histories x fault subsets of size 0-3 x provider scripts.
package gomatrixserverlib

import (
	"context"
	"fmt"
	"runtime/debug"
	"sort"
	"strings"

	"pgregory.net/rapid"
)

type c14RespCase struct {
	Version  string     `json:"version"`
	Events   []vfBytes  `json:"events"`             // clean signed events of the room, creation order
	Rejected []int      `json:"rejected,omitempty"` // events R-auth rejects against their own auth events (generator's flag)
	State    []int      `json:"state"`              // state_events / "state" of the answer (indices into Events)
	Auth     []int      `json:"auth"`               // auth_events / "auth_chain" of the answer
	Faults   []c14Fault `json:"faults,omitempty"`
	Prov     c14Script  `json:"provider"`
	Join     int        `json:"join"`      // send-join: the caller's join event; -1 for /state
	JoinOmit int        `json:"join_omit"` // send-join: position in the join's auth_events to leave out, -1 = none
}

const c14RuleState = "at least one injected fault (or a rejected / tainted event placed in the answer) and at least one fault-free event of the answer whose auth events include a faulted event"

func init() {
	vfRapid("C14/state-response", c14RuleState, 700, 16000, 8, c14GenStateResponse, c14CheckStateResponse)
	vfRapid("C14/send-join", c14RuleState, 500, 12000, 8, c14GenSendJoin, c14CheckSendJoin)
}

var c14RespFaultKinds = []string{
	"sig-corrupt", "sig-corrupt", "sig-wrong-key", "sig-drop", "sig-drop", "sig-extra", "wire-padded",
	"disallow", "disallow", "other-room", "strip-state-key", "truncate", "malformed", "null",
	"long-room-id", "type-cp", "type-bytes", "big-event",
	"omit", "omit", "omit", "dup-pdu", "dup-tuple", "twin-sig", "twin-sig",
}

func c14GenStateResponse(t *rapid.T) c14RespCase { return c14GenResp(t, false) }
func c14GenSendJoin(t *rapid.T) c14RespCase      { return c14GenResp(t, true) }

func c14GenResp(t *rapid.T, sendJoin bool) c14RespCase {
	w := c14GenWorld(t, 5, 22)
	r := w.r
	c := c14RespCase{Version: r.Version, Join: -1, JoinOmit: -1}
	var state map[string]int
	if sendJoin {
		var cands []int
		for _, e := range r.Events {
			if e.Type == "m.room.member" && e.StateKey != nil && *e.StateKey == e.Sender && e.Parent >= 0 {
				if ct, _ := e.Tree.get("content"); evStr(ct, "membership") == "join" {
					cands = append(cands, e.Idx)
				}
			}
		}
		if len(cands) < 2 || c14Chance(t, "newJoin", 25) {
			at := rapid.IntRange(1, len(r.Events)-1).Draw(t, "joinAt")
			u := rapid.SampledFrom(grUsers[1:]).Draw(t, "joiner")
			e := w.addAt(at, r.Events[at].State, "m.room.member", u, raSK(u), jobj("membership", jstr("join")), w.tainted[at])
			cands = append(cands, e.Idx)
		}
		c.Join = rapid.SampledFrom(cands).Draw(t, "join")
		state = w.before[c.Join]
		if c14Chance(t, "banJoiner", 20) {
			// the returned state has the joiner BANNED (a ban the join does not cite): the join's own auth
			// events may allow it, the returned state does not
			joiner := r.Events[c.Join].Sender
			if joiner != grUsers[0] {
				ban := w.addAt(r.Events[c.Join].Parent, state, "m.room.member", grUsers[0], raSK(joiner), jobj("membership", jstr("ban")), false)
				if !ban.Rejected {
					state = c14CopyState(state)
					state[grKey("m.room.member", joiner)] = ban.Idx
				}
			}
		}
		if na := len(c14AuthIDs(r.Version, r.Events[c.Join].Tree)); na > 0 && c14Chance(t, "joinOmit", 17) {
			c.JoinOmit = rapid.IntRange(0, na-1).Draw(t, "joinOmitAt")
		}
	} else {
		tip := rapid.IntRange(1, len(r.Events)-1).Draw(t, "tip")
		state = r.Events[tip].State
	}
	state = c14CopyState(state)
	// a rejected or tainted state event placed in the state (replacing the entry of its tuple)
	var bad []int
	for _, e := range r.Events {
		if e.StateKey != nil && (e.Rejected || w.tainted[e.Idx]) && e.Idx != c.Join {
			bad = append(bad, e.Idx)
		}
	}
	if len(bad) > 0 && c14Chance(t, "placeBad", 40) {
		n := rapid.IntRange(1, 2).Draw(t, "placeBadN")
		for k := 0; k < n; k++ {
			e := r.Events[rapid.SampledFrom(bad).Draw(t, "badEvent")]
			state[grKey(e.Type, *e.StateKey)] = e.Idx
		}
	}
	c.State = c14SortedVals(state)
	seeds := append([]int{}, c.State...)
	if c.Join >= 0 {
		seeds = append(seeds, c.Join)
	}
	c.Auth = w.authClosure(seeds)
	if c.Join >= 0 {
		// the join itself is not part of the answer
		var a []int
		for _, i := range c.Auth {
			if i != c.Join {
				a = append(a, i)
			}
		}
		c.Auth = a
	}
	all := append([]int{}, c.State...)
	for _, i := range c.Auth {
		if !c14Has(all, i) {
			all = append(all, i)
		}
	}
	nf := rapid.SampledFrom([]int{0, 1, 1, 1, 2, 2, 3}).Draw(t, "nFaults")
	used := map[int]bool{}
	for k := 0; k < nf; k++ {
		f := c14Fault{Kind: rapid.SampledFrom(c14RespFaultKinds).Draw(t, "faultKind"), At: rapid.SampledFrom(all).Draw(t, "faultAt"), Arg: rapid.IntRange(0, 47).Draw(t, "faultArg")}
		isCreate := r.Events[f.At].Type == "m.room.create"
		tr := vtraits[r.Version]
		if (f.Kind == "disallow" && isCreate) || (tr.Creators && (f.Kind == "long-room-id" || (f.Kind == "other-room" && isCreate))) {
			f.Kind = "sig-corrupt"
		}
		if c14IsEventFault(f.Kind) {
			if used[f.At] {
				continue
			}
			used[f.At] = true
		}
		c.Faults = append(c.Faults, f)
	}
	c.Prov.Default = rapid.SampledFrom([]string{"none", "none", "event", "event", "error", "nil"}).Draw(t, "provDefault")
	if c.Prov.Default != "nil" {
		no := rapid.IntRange(0, 2).Draw(t, "provOver")
		for k := 0; k < no; k++ {
			at := rapid.SampledFrom(all).Draw(t, "provAt")
			if len(c.Faults) > 0 && rapid.Bool().Draw(t, "provAtFault") {
				at = c.Faults[rapid.IntRange(0, len(c.Faults)-1).Draw(t, "provFault")].At
			}
			c.Prov.Over = append(c.Prov.Over, c14Prov{At: at, Mode: rapid.SampledFrom([]string{"event", "none", "error"}).Draw(t, "provMode")})
		}
	}
	c.State = c14Shuffle(t, c.State, "state")
	c.Auth = c14Shuffle(t, c.Auth, "auth")
	c.Events = w.signedEvents()
	c.Rejected = w.rejected()
	return c
}

// c14BuildLists turns the case into the two wire lists ([0] auth events, [1] state events).
func c14BuildLists(room *c14Room, c c14RespCase) [2][]c14Item {
	evFault := map[int]*c14Fault{}
	omit := map[int]int{}
	dupPDU := map[int]int{}
	dupTuple := map[int]bool{}
	// twin-sig: two JSON objects under ONE event ID, a validly signed one and one whose signature is
	// bad, in different lists (value-1 = the list that gets the bad copy)
	twin := map[int]int{}
	for i := range c.Faults {
		f := &c.Faults[i]
		if !room.ok(f.At) {
			continue
		}
		switch {
		case c14IsEventFault(f.Kind):
			if evFault[f.At] == nil {
				evFault[f.At] = f
			}
		case f.Kind == "omit":
			omit[f.At] |= []int{1, 2, 3}[f.Arg%3]
		case f.Kind == "dup-pdu":
			dupPDU[f.At] |= 1 << (f.Arg % 2)
		case f.Kind == "dup-tuple":
			dupTuple[f.At] = true
		case f.Kind == "twin-sig":
			twin[f.At] = 1 + f.Arg%2
		}
	}
	items := map[int]c14Item{}
	item := func(i int) c14Item {
		if it, ok := items[i]; ok {
			return it
		}
		it := c14MakeItem(room, i, evFault[i])
		items[i] = it
		return it
	}
	var lists [2][]c14Item
	for li, l := range [][]int{c.Auth, c.State} {
		for _, i := range l {
			if !room.ok(i) || omit[i]&(1<<li) != 0 {
				continue
			}
			if tw := twin[i]; tw != 0 && tw-1 == li && evFault[i] == nil {
				bad := c14MakeItem(room, i, &c14Fault{Kind: "sig-corrupt", At: i, Arg: 7})
				bad.Kind = "twin-sig"
				lists[li] = append(lists[li], bad)
				continue
			}
			lists[li] = append(lists[li], item(i))
			if dupPDU[i]&(1<<li) != 0 {
				lists[li] = append(lists[li], item(i))
			}
			if li == 1 && dupTuple[i] {
				// another, distinct, validly signed event with the same (type, state_key)
				tree := room.Trees[i]
				ct, _ := tree.get("content")
				tree = tree.with("content", ct.with("c14dup", jnum(1)))
				if vtraits[room.Version].Format == 1 {
					tree = tree.with("event_id", jstr(fmt.Sprintf("$dup%d:%s", i, c14Domain(evStr(tree, "event_id")))))
				}
				tree = c14Sign(room.Version, tree)
				lists[1] = append(lists[1], c14Item{Raw: []byte(jplain(tree)), Src: i, Kind: "dup-tuple", Class: c14ClassOK, Tree: tree,
					ID: raEventID(room.Version, tree), SigOK: c14SigOK(room.Version, tree)})
			}
		}
	}
	return lists
}

// c14TwinInBothLists: a twin-sig copy is present and the same event ID also occurs elsewhere.
func c14TwinInBothLists(lists [2][]c14Item) bool {
	for li := range lists {
		for _, it := range lists[li] {
			if it.Kind != "twin-sig" {
				continue
			}
			for _, other := range lists[1-li] {
				if other.ID == it.ID && other.Kind != "twin-sig" {
					return true
				}
			}
		}
	}
	return false
}

func c14Raws(items []c14Item) EventJSONs {
	out := make(EventJSONs, 0, len(items))
	for _, it := range items {
		out = append(out, append([]byte{}, it.Raw...))
	}
	return out
}

func c14HasClass(lists [2][]c14Item, class string) bool {
	for _, l := range lists {
		for _, it := range l {
			if it.Class == class {
				return true
			}
		}
	}
	return false
}

func c14HasKind(lists [2][]c14Item, kind string) bool {
	for _, l := range lists {
		for _, it := range l {
			if it.Kind == kind {
				return true
			}
		}
	}
	return false
}

// c14Catch runs f; a panic becomes a finding whose signature names the panicking library function and
// the hostile input class present in the answer (so that a listed known finding suppresses exactly it).
func c14Catch(ctx *vfCtx, prefix string, lists [2][]c14Item, nilPDU bool, f func()) (panicked bool) {
	defer func() {
		if r := recover(); r != nil {
			st := debug.Stack()
			panicked = true
			if strings.Contains(fmt.Sprint(r), "c14 harness") {
				ctx.Fail("C14/harness/panic", "%v", r)
				return
			}
			fn := vfPanicFunc(st)
			sig := prefix + "/panic/" + fn
			switch {
			case c14HasKind(lists, "null") && strings.Contains(string(st), "newEventFromUntrustedJSONV"):
				// res := &eventVn{}; json.Unmarshal(raw, &res) makes res nil for the text null; the
				// dereference is in another function per event format
				sig = prefix + "/panic/null-event"
			case nilPDU && c14HasClass(lists, c14ClassLongRoom):
				// UntrustedEvents hands on the nil PDU that comes with the persistable room-ID error
				sig += "/room-id-over-255-bytes"
			}
			ctx.Fail(sig, "panic: %v at %s", r, vfPanicSite(st))
		}
	}()
	f()
	return false
}

// c14RespClasses records the generator classes and decides non-triviality; it also runs the
// by-construction self-checks of the harness (a faulted signature must not verify by the reference, an
// untouched one must).
func c14RespClasses(ctx *vfCtx, room *c14Room, c c14RespCase, lists [2][]c14Item) {
	ctx.Class(c14VersionClass(c.Version))
	ctx.Class("provider:" + c.Prov.Default)
	ctx.Class(fmt.Sprintf("faults:%d", len(c.Faults)))
	rej := map[int]bool{}
	for _, i := range c.Rejected {
		rej[i] = true
	}
	faulted := map[int]bool{} // room indices whose event must not come back
	real := false
	for _, f := range c.Faults {
		ctx.Class("fault:" + f.Kind)
		if !room.ok(f.At) {
			continue
		}
		if c14FaultDrops(f.Kind, c14IsCreate(room.Trees[f.At])) || (f.Kind == "omit" && f.Arg%3 == 2) {
			faulted[f.At] = true
		}
		if f.Kind != "sig-extra" && f.Kind != "wire-padded" {
			real = true
		}
	}
	inAnswer := map[int]bool{}
	for _, l := range lists {
		for _, it := range l {
			inAnswer[it.Src] = true
			if it.Kind == "" && rej[it.Src] {
				faulted[it.Src] = true
				real = true
			}
			want := true
			for _, k := range append([]string{"twin-sig"}, c14SigFaults...) {
				if it.Kind == k {
					want = false
				}
			}
			if it.Class != c14ClassUnparsed && it.SigOK != want {
				ctx.Fail("C14/harness/reference-signature", "event %d with fault %q: reference signature verdict %v, by construction %v", it.Src, it.Kind, it.SigOK, want)
			}
		}
	}
	placed := false
	for i := range inAnswer {
		if rej[i] {
			placed = true
		}
	}
	if placed {
		ctx.Class("rejected-or-tainted-event-in-answer")
	}
	if !real {
		return
	}
	for _, l := range lists {
		for _, it := range l {
			if it.Kind != "" || faulted[it.Src] || rej[it.Src] {
				continue
			}
			for _, a := range room.authIdx(it.Tree) {
				if faulted[a] {
					ctx.NonTrivial()
					return
				}
			}
		}
	}
}

type c14RespOutcome struct {
	match   bool
	verdict c14Verdict
	sig     string
	msg     string
}

// c14CompareResp compares what CheckStateResponse returned with the model under one reading of the
// long-room-id class.
func c14CompareResp(room *c14Room, lists [2][]c14Item, script c14Script, longParsed bool, gotAuth, gotState []string, err error) c14RespOutcome {
	v := c14Model(room, lists, script, longParsed)
	o := c14RespOutcome{verdict: v}
	if v.Whole != "" {
		if err != nil {
			o.match = true
			return o
		}
		o.sig, o.msg = "whole-failure-missing/"+v.Whole, fmt.Sprintf("the answer contains a %s but no error was returned", v.Whole)
		return o
	}
	if err != nil {
		o.sig, o.msg = "unexpected-error", fmt.Sprintf("no non-state event and no duplicate state key, but the whole answer failed: %v", err)
		return o
	}
	names := []string{"auth", "state"}
	for li, got := range [][]string{gotAuth, gotState} {
		want := c14KeptIDs(lists[li], v.Keep[li])
		if c14SameIDs(got, want) {
			continue
		}
		cnt := map[string]int{}
		for _, id := range want {
			cnt[id]++
		}
		for _, id := range got {
			cnt[id]--
		}
		// an event that came back although the model drops it
		for i, it := range lists[li] {
			if it.ID != "" && cnt[it.ID] < 0 && !v.Keep[li][i] {
				why := v.Why[li][i]
				switch {
				case why == "signature":
					o.sig = "kept-bad-signature"
				case strings.HasPrefix(why, "auth:"):
					o.sig = "kept-disallowed"
				default:
					o.sig = "kept-" + why
				}
				o.msg = fmt.Sprintf("%s list: event %d (%s, fault %q) was returned but fails: %s", names[li], it.Src, it.ID, it.Kind, why)
				return o
			}
		}
		for i, it := range lists[li] {
			if v.Keep[li][i] && cnt[it.ID] > 0 {
				o.sig = "dropped-good-event"
				o.msg = fmt.Sprintf("%s list: event %d (%s, fault %q) has verified signatures and is allowed by its available auth events but was not returned", names[li], it.Src, it.ID, it.Kind)
				return o
			}
		}
		o.sig, o.msg = "returned-unknown-event", fmt.Sprintf("%s list: returned %v, expected %v", names[li], got, want)
		return o
	}
	o.match = true
	return o
}

func c14JudgeResp(ctx *vfCtx, prefix string, room *c14Room, c c14RespCase, lists [2][]c14Item, gotAuth, gotState []string, err error) (c14Verdict, bool) {
	readings := []bool{false}
	if c14HasClass(lists, c14ClassLongRoom) {
		readings = append(readings, true)
		ctx.Unjudged("whether an event whose room_id exceeds 255 bytes within 255 code points counts as parsed (either reading accepted)")
	}
	var first c14RespOutcome
	for i, lp := range readings {
		o := c14CompareResp(room, lists, c.Prov, lp, gotAuth, gotState, err)
		if o.verdict.Unjudged {
			ctx.Unjudged("an auth state R-auth does not judge")
			return o.verdict, false
		}
		if o.match {
			return o.verdict, true
		}
		if i == 0 {
			first = o
		}
	}
	ctx.Fail(prefix+"/"+first.sig, "%s", first.msg)
	return first.verdict, false
}

func c14OutcomeClasses(ctx *vfCtx, room *c14Room, c c14RespCase, lists [2][]c14Item, v c14Verdict) {
	if v.Whole != "" {
		ctx.Class("outcome:whole-failure:" + v.Whole)
		return
	}
	faultedID := map[string]bool{}
	for li := range lists {
		for i, it := range lists[li] {
			if !v.Keep[li][i] && it.Class != c14ClassUnparsed {
				faultedID[it.ID] = true
			}
			if !v.Keep[li][i] {
				w := v.Why[li][i]
				if strings.HasPrefix(w, "auth:") {
					w = "auth"
				}
				ctx.Class("dropped:" + w)
			}
		}
	}
	all := true
	for li := range lists {
		for i, it := range lists[li] {
			all = all && v.Keep[li][i]
			if it.Kind != "" || it.Class == c14ClassUnparsed {
				continue
			}
			dep := false
			for _, id := range c14AuthIDs(room.Version, it.Tree) {
				if _, ok := v.Verified[id]; !ok {
					dep = true
				}
			}
			if dep && v.Keep[li][i] {
				ctx.Class("fault-free-event-kept-without-one-of-its-auth-events")
			} else if dep {
				ctx.Class("fault-free-event-dropped-for-lack-of-an-auth-event")
			}
		}
	}
	if all {
		ctx.Class("outcome:all-kept")
	} else {
		ctx.Class("outcome:filtered")
	}
}

// c14Baseline: harness self-check. Without any fault every event is returned iff the generator's own
// flag (R-auth against the event's complete auth events) says it is allowed.
func c14Baseline(ctx *vfCtx, c c14RespCase, lists [2][]c14Item, v c14Verdict) {
	if len(c.Faults) > 0 || v.Whole != "" {
		return
	}
	rej := map[int]bool{}
	for _, i := range c.Rejected {
		rej[i] = true
	}
	for li := range lists {
		for i, it := range lists[li] {
			complete := true // (a send_join answer does not contain the join itself, which later events may name)
			for _, id := range c14AuthIDs(c.Version, it.Tree) {
				if _, ok := v.Verified[id]; !ok {
					complete = false
				}
			}
			if complete && v.Keep[li][i] == rej[it.Src] {
				ctx.Fail("C14/harness/baseline", "fault-free answer: model keeps=%v event %d but generator flag rejected=%v (%s)", v.Keep[li][i], it.Src, rej[it.Src], v.Why[li][i])
			}
		}
	}
}

func c14CheckStateResponse(ctx *vfCtx, c c14RespCase) {
	room := c14LoadRoom(c.Version, c.Events)
	lists := c14BuildLists(room, c)
	c14RespClasses(ctx, room, c, lists)
	resp := &stateResponseImpl{authEvents: c14Raws(lists[0]), stateEvents: c14Raws(lists[1])}
	var asked []string
	prov := c14LibProvider(room, c.Prov, &asked)
	var gotAuth, gotState []PDU
	var err error
	if c14Catch(ctx, "C14/state-response", lists, true, func() {
		gotAuth, gotState, err = CheckStateResponse(c14Quiet(), resp, RoomVersion(c.Version), c14Verifier(), prov, vfUserIDForSender)
	}) {
		return
	}
	var ga, gs []string
	if err == nil {
		if c14Catch(ctx, "C14/state-response", lists, true, func() { ga, gs = c14SortedIDs(gotAuth), c14SortedIDs(gotState) }) {
			return
		}
	}
	if c14TwinInBothLists(lists) {
		// which of two objects under one event ID "the event" is, the statement does not say: the
		// reference model is not consulted, only "every returned event has verified signatures"
		ctx.Class("twin-sig:soundness-only")
		ctx.Unjudged("two JSON objects under one event ID (one validly signed, one not): completeness not judged")
	} else {
		v, ok := c14JudgeResp(ctx, "C14/state-response", room, c, lists, ga, gs, err)
		if !ok {
			return
		}
		c14Baseline(ctx, c, lists, v)
		c14OutcomeClasses(ctx, room, c, lists, v)
	}
	// every returned event, read back from the library's own copy, has verified signatures
	if err == nil {
		for _, p := range append(append([]PDU{}, gotAuth...), gotState...) {
			t, perr := evTree(p.JSON())
			if perr != nil || !c14SigOK(c.Version, t) {
				ctx.Fail("C14/state-response/returned-event-without-verified-signatures", "returned event %s does not carry verified signatures of all required servers", p.EventID())
				return
			}
		}
	}
	// the same response checked for a caller whose context has already ended: whatever comes back then
	// passed the same two checks (the verifier here needs no network, so nothing excuses a skipped check)
	{
		ended, cancel := context.WithCancel(c14Quiet())
		cancel()
		var asked2 []string
		prov2 := c14LibProvider(room, c.Prov, &asked2)
		var ea, es []PDU
		var eerr error
		if c14Catch(ctx, "C14/state-response/ended-context", lists, true, func() {
			ea, es, eerr = CheckStateResponse(ended, &stateResponseImpl{authEvents: c14Raws(lists[0]), stateEvents: c14Raws(lists[1])}, RoomVersion(c.Version), c14Verifier(), prov2, vfUserIDForSender)
		}) {
			return
		}
		if eerr == nil {
			ctx.Class("ended-context/answered")
			for _, p := range append(append([]PDU{}, ea...), es...) {
				t, perr := evTree(p.JSON())
				if perr != nil || !c14SigOK(c.Version, t) {
					ctx.Fail("C14/state-response/ended-context/returned-event-without-verified-signatures", "with an ended context, returned event %s does not carry verified signatures of all required servers", p.EventID())
					return
				}
			}
		}
	}
}

func c14CheckSendJoin(ctx *vfCtx, c c14RespCase) {
	room := c14LoadRoom(c.Version, c.Events)
	if !room.ok(c.Join) {
		panic("c14 harness: send-join case without a join event")
	}
	lists := c14BuildLists(room, c)
	c14RespClasses(ctx, room, c, lists)
	jt := room.Trees[c.Join]
	if c.JoinOmit >= 0 {
		ae, _ := jt.get("auth_events")
		if c.JoinOmit < len(ae.A) {
			na := jv{K: 'a', A: []jv{}}
			for i, x := range ae.A {
				if i != c.JoinOmit {
					na.A = append(na.A, x)
				}
			}
			jt = c14Sign(c.Version, jt.with("auth_events", na))
			ctx.Class("join:auth-event-left-out")
		}
	}
	join := c14PDU(c.Version, jt)
	resp := &stateResponseImpl{authEvents: c14Raws(lists[0]), stateEvents: c14Raws(lists[1])}
	var asked []string
	prov := c14LibProvider(room, c.Prov, &asked)
	var res StateResponse
	var err error
	if c14Catch(ctx, "C14/send-join", lists, true, func() {
		res, err = CheckSendJoinResponse(c14Quiet(), RoomVersion(c.Version), resp, c14Verifier(), join, prov, vfUserIDForSender)
	}) {
		return
	}
	if c14TwinInBothLists(lists) {
		ctx.Class("twin-sig:soundness-only")
		ctx.Unjudged("two JSON objects under one event ID (one validly signed, one not): completeness not judged")
		if err == nil {
			for _, l := range []EventJSONs{res.GetAuthEvents(), res.GetStateEvents()} {
				for _, raw := range l {
					t, perr := evTree(raw)
					if perr != nil || !c14SigOK(c.Version, t) {
						ctx.Fail("C14/send-join/returned-event-without-verified-signatures", "send_join accepted and returned an event that does not carry verified signatures of all required servers: %s", raw)
						return
					}
				}
			}
		}
		return
	}
	readings := []bool{false}
	if c14HasClass(lists, c14ClassLongRoom) {
		readings = append(readings, true)
		ctx.Unjudged("whether an event whose room_id exceeds 255 bytes within 255 code points counts as parsed (either reading accepted)")
	}
	type exp struct {
		v               c14Verdict
		byAuth, byState bool
		ruleA, ruleS    string
	}
	var exps []exp
	for _, lp := range readings {
		v := c14Model(room, lists, c.Prov, lp)
		e := exp{v: v}
		if v.Whole == "" {
			have := map[string]jv{}
			var stateTrees []jv
			for li := range lists {
				for i, it := range lists[li] {
					if v.Keep[li][i] {
						have[it.ID] = it.Tree
						if li == 1 {
							stateTrees = append(stateTrees, it.Tree)
						}
					}
				}
			}
			var u1, u2 string
			e.byAuth, e.ruleA, u1 = c14Allowed(c.Version, jt, c14Resolve(room, c14AuthIDs(c.Version, jt), have, c.Prov))
			e.byState, e.ruleS, u2 = c14Allowed(c.Version, jt, stateTrees)
			if u1 != "" || u2 != "" || v.Unjudged {
				ctx.Unjudged("an auth state R-auth does not judge")
				return
			}
		}
		exps = append(exps, e)
	}
	accept := func(e exp) bool { return e.v.Whole == "" && e.byAuth && e.byState }
	if err != nil {
		for _, e := range exps {
			if !accept(e) {
				switch {
				case e.v.Whole != "":
					ctx.Class("outcome:refused:whole-failure:" + e.v.Whole)
				case !e.byAuth && !e.byState:
					ctx.Class("outcome:refused:join-allowed-by-neither")
				case !e.byAuth:
					ctx.Class("outcome:refused:join-allowed-by-returned-state-only")
				default:
					ctx.Class("outcome:refused:join-allowed-by-its-auth-events-only")
				}
				return
			}
		}
		ctx.Fail("C14/send-join/rejected-although-allowed", "no whole-answer failure, the join is allowed by its auth events (%s) and by the returned state (%s), but: %v", exps[0].ruleA, exps[0].ruleS, err)
		return
	}
	// accepted
	var ga, gs []string
	for li, l := range []EventJSONs{res.GetAuthEvents(), res.GetStateEvents()} {
		for _, raw := range l {
			t, perr := evTree(raw)
			if perr != nil {
				ctx.Fail("C14/send-join/returned-events-differ/unparsable", "returned event does not parse: %v", perr)
				return
			}
			// what is handed on is the event as it was PARSED (the keys a sender cannot vouch for are dropped
			// on receipt: callers load these lists as trusted events)
			for _, k := range []string{"unsigned", "age_ts", "outlier", "destinations"} {
				if _, has := t.get(k); has {
					ctx.Fail("C14/send-join/returned-json-keeps-key-stripped-on-receipt/"+k, "the list returned by CheckSendJoinResponse carries an event with the sender-supplied member %q: %.300s", k, raw)
					return
				}
			}
			if li == 0 {
				ga = append(ga, raEventID(c.Version, t))
			} else {
				gs = append(gs, raEventID(c.Version, t))
			}
		}
	}
	sort.Strings(ga)
	sort.Strings(gs)
	var firstBad string
	for i, e := range exps {
		if !accept(e) {
			if i == 0 {
				switch {
				case e.v.Whole != "":
					firstBad = "accepted-although/whole-failure-" + e.v.Whole
				case !e.byAuth:
					firstBad = "accepted-although/join-not-allowed-by-its-auth-events"
				default:
					firstBad = "accepted-although/join-not-allowed-by-returned-state"
				}
			}
			continue
		}
		o := c14CompareResp(room, lists, c.Prov, readings[i], ga, gs, nil)
		if o.match {
			ctx.Class("outcome:accepted")
			c14Baseline(ctx, c, lists, e.v)
			c14OutcomeClasses(ctx, room, c, lists, e.v)
			return
		}
		if firstBad == "" {
			firstBad = "returned-events-differ/" + o.sig + ": " + o.msg
		}
	}
	sig := firstBad
	if i := strings.Index(sig, ": "); i >= 0 {
		sig = sig[:i]
	}
	ctx.Fail("C14/send-join/"+sig, "send_join accepted (join auth rule %s, state rule %s): %s", exps[0].ruleA, exps[0].ruleS, firstBad)
}
