//go:build verif

package gomatrixserverlib

// C06 — an event verifies only if every protocol-required server validly signed it.
//
// Events are assembled, hashed and signed here by the reference signer (ed25519 over the reference
// canonical form of the reference redaction, vf_evgen_test.go), never by the library. The set of
// required servers is computed from the statement (c06Required), the validity of each required
// server's signature by an oracle that reads the event tree itself (c06SignedBy + c06ValidAt).
// VerifyEventSignatures is then driven with
//   (i)  a recording stub JSONVerifier that verifies, independently of signing.go, whatever message
//        the library hands it against the scripted key table, honouring the request's
//        ValidityCheckingFunc, and
//   (ii) a real KeyRing over a scripted in-memory KeyDatabase without fetchers.
// Judged: verdict == "every required server valid" for both; for the stub also that the set of
// servers asked about equals the reference's required set and that AtTS is origin_server_ts.
//
// C06/pseudo covers org.matrix.msc4014 (sender = base64 ed25519 key, self-verification, mxid_mapping).

import (
	"context"
	"crypto/ed25519"
	"crypto/sha256"
	"encoding/base64"
	"fmt"
	"io"
	"sort"
	"strings"
	"time"

	"github.com/matrix-org/gomatrixserverlib/spec"
	"github.com/matrix-org/util"
	"github.com/sirupsen/logrus"
	"pgregory.net/rapid"
)

// ---------------------------------------------------------------------------------------------
// Plain-data case

// c06TS is a millisecond timestamp, absolute or relative to the wall clock read at the start of
// the check (so that "eight days from now" replays on another day).
type c06TS struct {
	Rel bool  `json:"rel,omitempty"`
	V   int64 `json:"v"`
}

func (t c06TS) ms(now int64) uint64 {
	v := t.V
	if t.Rel {
		v += now
	}
	if v < 0 {
		v = 0
	}
	return uint64(v)
}
func (t c06TS) plus(d int64) c06TS { return c06TS{Rel: t.Rel, V: t.V + d} }

const (
	c06Second = int64(1000)
	c06Hour   = 3600 * c06Second
	c06Day    = 24 * c06Hour
	c06Week   = 7 * c06Day
	c06Year   = 365 * c06Day
	c06Slack  = int64(5000)
)

// c06Sig is one signature placed on the event (or on an mxid_mapping).
type c06Sig struct {
	Server string `json:"server"`
	KeyID  string `json:"key_id"`
	By     string `json:"by"`               // vfKeyFor label of the private key that makes it
	Mangle string `json:"mangle,omitempty"` // "" | flip | trunc | nob64 | nonstring | rand64 | otherpayload | unredacted
}

// c06Key is one row of the scripted key table (what the server publishes / the database holds).
type c06Key struct {
	Server     string `json:"server"`
	KeyID      string `json:"key_id"`
	Label      string `json:"label"` // the public key is vfKeyFor(Label)
	ValidUntil c06TS  `json:"valid_until"`
	Expired    c06TS  `json:"expired"`
}

// c06Plan is the generator's intent (classes only; the oracle never reads it).
type c06Plan struct {
	Server string `json:"server"`
	Role   string `json:"role"`
	Fault  string `json:"fault"`
}

type c06Case struct {
	Version       string    `json:"version"`
	Kind          string    `json:"kind"`
	Type          string    `json:"type"`
	Sender        string    `json:"sender"`
	RoomID        string    `json:"room_id"`
	StateKey      *string   `json:"state_key"`
	Content       vfBytes   `json:"content"`
	EventIDServer string    `json:"event_id_server,omitempty"`
	Depth         int64     `json:"depth"`
	TS            c06TS     `json:"ts"`
	Unsigned      vfBytes   `json:"unsigned,omitempty"`
	Untrusted     bool      `json:"untrusted"`
	Sigs          []c06Sig  `json:"sigs"`
	Empty         []string  `json:"empty,omitempty"` // servers with an empty {} entry under signatures
	Keys          []c06Key  `json:"keys"`
	Plan          []c06Plan `json:"plan"`
	Extras        []c06Plan `json:"extras,omitempty"`
}

// ---------------------------------------------------------------------------------------------
// Reference: required servers (from the statement; shares nothing with eventcrypto.go)

type c06Req struct{ Server, Role string }

// c06Domain returns what follows the first ':' of an identifier that starts with sigil.
func c06Domain(id string, sigil byte) (string, bool) {
	if len(id) < 2 || id[0] != sigil {
		return "", false
	}
	i := strings.IndexByte(id, ':')
	if i < 0 || i+1 >= len(id) {
		return "", false
	}
	return id[i+1:], true
}

func c06AddReq(reqs []c06Req, server, role string) []c06Req {
	for i := range reqs {
		if reqs[i].Server == server {
			reqs[i].Role += "+" + role
			return reqs
		}
	}
	return append(reqs, c06Req{server, role})
}

// c06Required computes the required servers of an event tree of a user-ID room version.
// ok=false: an identifier the rule needs is malformed (not judged).
func c06Required(version string, ev jv) (reqs []c06Req, ok bool) {
	tr := vtraits[version]
	d, good := c06Domain(evStr(ev, "sender"), '@')
	if !good {
		return nil, false
	}
	reqs = c06AddReq(reqs, d, "sender")
	if tr.IDFormat == 1 { // room versions 1 and 2
		d, good = c06Domain(evStr(ev, "event_id"), '$')
		if !good {
			return nil, false
		}
		reqs = c06AddReq(reqs, d, "event-id")
	}
	if evStr(ev, "type") != "m.room.member" {
		return reqs, true
	}
	ct, _ := ev.get("content")
	membership := evStr(ct, "membership")
	switch membership {
	case "invite":
		sk, has := ev.get("state_key")
		if !has || sk.K != 's' {
			return nil, false
		}
		d, good = c06Domain(sk.S, '@')
		if !good {
			return nil, false
		}
		reqs = c06AddReq(reqs, d, "invitee")
	case "join":
		if av, has := ct.get("join_authorised_via_users_server"); has && tr.Restricted {
			if av.K != 's' {
				return nil, false
			}
			d, good = c06Domain(av.S, '@')
			if !good {
				return nil, false
			}
			reqs = c06AddReq(reqs, d, "authoriser")
		}
	}
	return reqs, true
}

// ---------------------------------------------------------------------------------------------
// Reference: validity of one server's signature

type c06RKey struct {
	Server, KeyID       string
	Pub                 ed25519.PublicKey
	ValidUntil, Expired uint64
}

func c06Resolve(rows []c06Key, now int64) []c06RKey {
	out := make([]c06RKey, 0, len(rows))
	for _, r := range rows {
		pub, _ := vfKeyFor(r.Label)
		out = append(out, c06RKey{r.Server, r.KeyID, pub, r.ValidUntil.ms(now), r.Expired.ms(now)})
	}
	return out
}

// c06ValidAt is the key-validity rule for one reading of the clock: an expired (old) key is valid
// strictly before expired_ts; any other key always under the lenient rule (room versions 1-4) and,
// under the strict rule (5+), at or before min(valid_until_ts, now+7d), never without valid_until_ts.
func c06ValidAt(k c06RKey, at uint64, strict bool, now int64) (bool, string) {
	if k.Expired != 0 {
		if at < k.Expired {
			return true, ""
		}
		return false, "key-expired-before-ts"
	}
	if !strict {
		return true, ""
	}
	if k.ValidUntil == 0 {
		return false, "strict/no-valid-until"
	}
	if at > k.ValidUntil {
		return false, "strict/ts-after-valid-until"
	}
	if at > uint64(now+c06Week) {
		return false, "strict/ts-beyond-7d-cap"
	}
	return true, ""
}

// c06SignedBy reports whether the object v carries, under signatures[server], at least one
// signature that verifies over payload with a table key for (server, key ID) that validAt accepts.
func c06SignedBy(v jv, payload []byte, server string, keys []c06RKey, validAt func(c06RKey) (bool, string)) (bool, string) {
	sigs, ok := v.get("signatures")
	if !ok || sigs.K != 'o' {
		return false, "absent"
	}
	ent, ok := sigs.get(server)
	if !ok || ent.K != 'o' || len(ent.O) == 0 {
		return false, "absent"
	}
	why := "absent"
	for _, m := range ent.O {
		if !strings.HasPrefix(m.Key, "ed25519:") {
			// only ed25519 keys are supported: any other key ID does not count as a signature
			why = "unsupported-algorithm"
			continue
		}
		if m.Val.K != 's' {
			why = "malformed-signature"
			continue
		}
		raw, err := base64.RawStdEncoding.DecodeString(m.Val.S)
		if err != nil {
			why = "malformed-signature"
			continue
		}
		var key *c06RKey
		for i := range keys {
			if keys[i].Server == server && keys[i].KeyID == m.Key {
				key = &keys[i]
			}
		}
		if key == nil {
			why = "unknown-key"
			continue
		}
		if good, w := validAt(*key); !good {
			why = w
			continue
		}
		if len(raw) != ed25519.SignatureSize || len(key.Pub) != ed25519.PublicKeySize || !ed25519.Verify(key.Pub, payload, raw) {
			why = "bad-signature"
			continue
		}
		return true, ""
	}
	return false, why
}

// ---------------------------------------------------------------------------------------------
// Recording stub verifier and scripted key database

type c06Stub struct {
	keys  []c06RKey
	calls int
	asked []string
	atTS  []uint64
	nilFn bool
}

func (s *c06Stub) VerifyJSONs(_ context.Context, reqs []VerifyJSONRequest) ([]VerifyJSONResult, error) {
	s.calls++
	out := make([]VerifyJSONResult, len(reqs))
	for i := range reqs {
		r := reqs[i]
		s.asked = append(s.asked, string(r.ServerName))
		s.atTS = append(s.atTS, uint64(r.AtTS))
		fn := r.ValidityCheckingFunc
		if fn == nil {
			s.nilFn = true
			fn = func(_, _ spec.Timestamp) bool { return true }
		}
		v, fl, err := jparse(r.Message)
		if err != nil || v.K != 'o' || fl.DupKeys {
			out[i].Error = fmt.Errorf("c06 stub: message is not a well-formed JSON object")
			continue
		}
		payload := []byte(jcanon(v.without("signatures", "unsigned")))
		ok, why := c06SignedBy(v, payload, string(r.ServerName), s.keys, func(k c06RKey) (bool, string) {
			if k.Expired != 0 {
				return uint64(r.AtTS) < k.Expired, "expired"
			}
			return fn(r.AtTS, spec.Timestamp(k.ValidUntil)), "refused by the request's validity function"
		})
		if !ok {
			out[i].Error = fmt.Errorf("c06 stub: no valid signature from %q (%s)", r.ServerName, why)
		}
	}
	return out, nil
}

type c06DB struct {
	rows map[PublicKeyLookupRequest]PublicKeyLookupResult
}

func c06NewDB(keys []c06RKey) *c06DB {
	db := &c06DB{rows: map[PublicKeyLookupRequest]PublicKeyLookupResult{}}
	for _, k := range keys {
		db.rows[PublicKeyLookupRequest{ServerName: spec.ServerName(k.Server), KeyID: KeyID(k.KeyID)}] = PublicKeyLookupResult{
			VerifyKey:    VerifyKey{Key: spec.Base64Bytes(append([]byte(nil), k.Pub...))},
			ExpiredTS:    spec.Timestamp(k.Expired),
			ValidUntilTS: spec.Timestamp(k.ValidUntil),
		}
	}
	return db
}

func (d *c06DB) FetcherName() string { return "c06-scripted-database" }
func (d *c06DB) FetchKeys(_ context.Context, reqs map[PublicKeyLookupRequest]spec.Timestamp) (map[PublicKeyLookupRequest]PublicKeyLookupResult, error) {
	out := map[PublicKeyLookupRequest]PublicKeyLookupResult{}
	for r := range reqs {
		if res, ok := d.rows[r]; ok {
			out[r] = res
		}
	}
	return out, nil
}
func (d *c06DB) StoreKeys(context.Context, map[PublicKeyLookupRequest]PublicKeyLookupResult) error {
	return nil
}

// c06BrokenVerifier fails altogether ("error") or answers with an empty result list ("short").
type c06BrokenVerifier struct{ mode string }

func (v c06BrokenVerifier) VerifyJSONs(ctx context.Context, reqs []VerifyJSONRequest) ([]VerifyJSONResult, error) {
	if v.mode == "error" {
		return nil, fmt.Errorf("c06: scripted verifier failure")
	}
	return []VerifyJSONResult{}, nil
}

func c06Ctx() context.Context {
	l := logrus.New()
	l.SetOutput(io.Discard)
	return util.ContextWithLogger(context.Background(), logrus.NewEntry(l))
}

// ---------------------------------------------------------------------------------------------
// Building the event with the reference signer

func c06FakeIDs(version string, n int) jv {
	a := jv{K: 'a', A: []jv{}}
	for i := 0; i < n; i++ {
		sum := sha256.Sum256([]byte(fmt.Sprint("c06-ref", i)))
		switch vtraits[version].IDFormat {
		case 1:
			a.A = append(a.A, jarr(jstr(fmt.Sprintf("$p%d:a.example", i)), jobj("sha256", jstr(base64.RawStdEncoding.EncodeToString(sum[:])))))
		case 2:
			a.A = append(a.A, jstr("$"+base64.RawStdEncoding.EncodeToString(sum[:])))
		default:
			a.A = append(a.A, jstr("$"+base64.RawURLEncoding.EncodeToString(sum[:])))
		}
	}
	return a
}

// c06Unsigned builds the event tree without hashes and signatures.
func c06Unsigned(c c06Case, ts uint64) (jv, error) {
	ct, fl, err := jparse(c.Content)
	if err != nil || ct.K != 'o' || fl.DupKeys {
		return jv{}, fmt.Errorf("content is not an object")
	}
	ev := jobj("type", jstr(c.Type), "sender", jstr(c.Sender))
	if c.RoomID != "" {
		ev = ev.with("room_id", jstr(c.RoomID))
	}
	if c.StateKey != nil {
		ev = ev.with("state_key", jstr(*c.StateKey))
	}
	ev = ev.with("content", ct).with("depth", jnum(c.Depth)).with("origin_server_ts", jv{K: '#', S: fmt.Sprint(ts)})
	ev = ev.with("prev_events", c06FakeIDs(c.Version, 1)).with("auth_events", c06FakeIDs(c.Version, 2))
	if vtraits[c.Version].Format == 1 {
		ev = ev.with("event_id", jstr(fmt.Sprintf("$e%d:%s", c.Depth, c.EventIDServer)))
	}
	if len(c.Unsigned) > 0 {
		u, _, uerr := jparse(c.Unsigned)
		if uerr != nil {
			return jv{}, fmt.Errorf("unsigned is not JSON")
		}
		ev = ev.with("unsigned", u)
	}
	return ev, nil
}

func c06Payload(version string, ev jv) []byte {
	return []byte(jcanon(rredact(version, ev).without("signatures", "unsigned")))
}

// c06SigValue makes the JSON value stored under signatures[server][key ID].
func c06SigValue(s c06Sig, payload, altPayload, fullPayload []byte) jv {
	msg := payload
	switch s.Mangle {
	case "otherpayload":
		msg = altPayload
	case "unredacted":
		msg = fullPayload
	}
	_, priv := vfKeyFor(s.By)
	raw := ed25519.Sign(priv, msg)
	switch s.Mangle {
	case "flip":
		raw[len(raw)/2] ^= 0x20
	case "trunc":
		raw = raw[:len(raw)-1]
	case "nob64":
		return jstr("!!not*base64!!")
	case "nonstring":
		return jnum(5)
	case "rand64":
		a := sha256.Sum256([]byte("c06-rand-a:" + s.By))
		b := sha256.Sum256([]byte("c06-rand-b:" + s.By))
		raw = append(a[:], b[:]...)
	}
	return jstr(base64.RawStdEncoding.EncodeToString(raw))
}

func c06AddSig(obj jv, server, keyID string, val jv) jv {
	sigs, _ := obj.get("signatures")
	if sigs.K != 'o' {
		sigs = jv{K: 'o'}
	}
	ent, _ := sigs.get(server)
	if ent.K != 'o' {
		ent = jv{K: 'o'}
	}
	if keyID != "" {
		ent = ent.with(keyID, val)
	}
	return obj.with("signatures", sigs.with(server, ent))
}

// c06Build returns the complete event tree (hashes + scripted signatures).
func c06Build(c c06Case, ts uint64) (jv, error) {
	ev, err := c06Unsigned(c, ts)
	if err != nil {
		return ev, err
	}
	ev = ev.with("hashes", jobj("sha256", jstr(rcontentHash(ev))))
	payload := c06Payload(c.Version, ev)
	alt := c06Payload(c.Version, ev.with("depth", jnum(c.Depth+1)))
	full := []byte(jcanon(ev.without("signatures", "unsigned")))
	for _, s := range c.Empty {
		ev = c06AddSig(ev, s, "", jv{})
	}
	for _, s := range c.Sigs {
		ev = c06AddSig(ev, s.Server, s.KeyID, c06SigValue(s, payload, alt, full))
	}
	return ev, nil
}

// ---------------------------------------------------------------------------------------------
// Check

func c06SortedSet(in []string) []string {
	m := map[string]bool{}
	for _, s := range in {
		m[s] = true
	}
	out := make([]string, 0, len(m))
	for s := range m {
		out = append(out, s)
	}
	sort.Strings(out)
	return out
}

func c06TSClass(t c06TS) string {
	switch {
	case !t.Rel:
		return "ts/absolute-past"
	case t.V > c06Week:
		return "ts/beyond-now+7d"
	default:
		return "ts/around-now"
	}
}

type c06Verdict struct {
	lo, hi   bool   // every required server valid, for the earliest / latest reading of the clock
	badRole  string // role and reason of the first invalid required server (at lo)
	badWhy   string
	nFaulty  int
	extraTag string
	lenient  bool // an extra signature entry is not a string: completeness not judged
}

func c06Judge(ctx *vfCtx, who string, got error, v c06Verdict, detail string) {
	if v.lo != v.hi {
		ctx.Unjudged("verdict depends on the reading of the wall clock")
		return
	}
	switch {
	case v.lo && got != nil:
		if v.lenient {
			ctx.Unjudged("rejected while an unrelated signatures entry is not a string (malformed signatures member; statement silent)")
			return
		}
		ctx.Fail("C06/"+who+"/rejected-although-all-required-valid/"+v.extraTag,
			"every required server has a valid signature by a key valid at origin_server_ts, but verification failed: %v; %s", got, detail)
	case !v.lo && got == nil:
		ctx.Fail("C06/"+who+"/accepted/"+v.badRole+"/"+v.badWhy,
			"verification succeeded although the required server in role %s has no valid signature (%s); %s", v.badRole, v.badWhy, detail)
	}
}

func c06Check(ctx *vfCtx, c c06Case) {
	impl, err := GetRoomVersion(RoomVersion(c.Version))
	if err != nil {
		ctx.Fail("C06/unknown-version", "version %q", c.Version)
		return
	}
	tr := vtraits[c.Version]
	now0 := time.Now().UnixMilli()
	ts := c.TS.ms(now0)
	ev, berr := c06Build(c, ts)
	if berr != nil {
		ctx.Unjudged("generator: " + berr.Error())
		return
	}
	reqs, ok := c06Required(c.Version, ev)
	if !ok {
		ctx.Unjudged("an identifier that names a required server is malformed")
		return
	}
	keys := c06Resolve(c.Keys, now0)
	payload := c06Payload(c.Version, ev)
	wire := []byte(jplain(ev))

	// classes
	ctx.Class("version/" + c.Version)
	ctx.Class("kind/" + c.Kind)
	ctx.Class(fmt.Sprintf("required/%d", len(reqs)))
	ctx.Class(c06TSClass(c.TS))
	if tr.StrictKeys {
		ctx.Class("rule/strict")
	} else {
		ctx.Class("rule/lenient")
	}
	for _, r := range reqs {
		ctx.Class("role/" + r.Role)
	}
	for _, p := range c.Plan {
		ctx.Class("planned/" + p.Fault)
	}
	var v c06Verdict
	var extraKinds []string
	for _, x := range c.Extras {
		ctx.Class("extra/" + x.Fault)
		extraKinds = append(extraKinds, x.Fault)
		if x.Fault == "nonstring" {
			v.lenient = true
		}
	}
	// signature stem for "rejected although valid": what kind of unrelated signatures are present
	v.extraTag = "no-unrelated-signatures"
	if len(extraKinds) > 0 {
		v.extraTag = "unrelated-signatures-present"
	}
	for _, sg := range c.Sigs {
		if sg.Mangle == "nob64" {
			// some signature other than the valid ones is a string that is not base64
			v.extraTag = "another-signature-not-base64"
		}
	}
	if len(c.Extras) == 0 {
		ctx.Class("extra/none")
	}

	// parse through the library
	var pdu PDU
	if vfCatch(ctx, "C06", func() {
		if c.Untrusted {
			pdu, err = impl.NewEventFromUntrustedJSON(append([]byte(nil), wire...))
		} else {
			pdu, err = impl.NewEventFromTrustedJSON(append([]byte(nil), wire...), false)
		}
	}) {
		return
	}
	if err != nil {
		ctx.Class("parser-rejected")
		ctx.Unjudged("event rejected by the parser: " + c06Short(err))
		return
	}
	if c.Untrusted {
		ctx.Class("parse/untrusted")
	} else {
		ctx.Class("parse/trusted")
	}

	// (i) stub verifier
	stub := &c06Stub{keys: keys}
	var serr error
	if vfCatch(ctx, "C06/stub", func() { serr = VerifyEventSignatures(c06Ctx(), pdu, stub, vfUserIDForSender) }) {
		return
	}
	// (ii) real key ring over the scripted database
	var kerrs []error
	if vfCatch(ctx, "C06/keyring", func() {
		kerrs = VerifyAllEventSignatures(c06Ctx(), []PDU{pdu}, KeyRing{KeyDatabase: c06NewDB(keys)}, vfUserIDForSender)
	}) {
		return
	}
	// (iii) the sender's server cannot be established (the caller's lookup fails): then it cannot have
	// been checked either, and the event must not come out as verified — whoever else signed it
	{
		failing := func(spec.RoomID, spec.SenderID) (*spec.UserID, error) {
			return nil, fmt.Errorf("c06: scripted sender lookup failure")
		}
		var ferr error
		if vfCatch(ctx, "C06/lookup-fails", func() {
			ferr = VerifyEventSignatures(c06Ctx(), pdu, KeyRing{KeyDatabase: c06NewDB(keys)}, failing)
		}) {
			return
		}
		if ferr == nil {
			ctx.Fail("C06/verified-although-the-senders-server-is-unknown", "the sender lookup fails, yet VerifyEventSignatures succeeds for %s", jplain(ev))
		}
	}
	// (iv) the verifier itself fails (its database is down): nothing was verified, so the event must
	// not come out as verified (and nothing crashes)
	for _, mode := range []string{"error"} {
		var verr error
		if vfCatch(ctx, "C06/verifier-fails/"+mode, func() {
			verr = VerifyEventSignatures(c06Ctx(), pdu, c06BrokenVerifier{mode: mode}, vfUserIDForSender)
		}) {
			return
		}
		if verr == nil && mode == "error" {
			ctx.Fail("C06/verified-although-the-verifier-failed", "the key verifier returns an error, yet VerifyEventSignatures succeeds for %s", jplain(ev))
		}
	}
	now1 := time.Now().UnixMilli()

	// oracle, at both ends of the interval in which the library can have read the clock
	eval := func(now int64) (all bool, role, why string, n int) {
		all = true
		for _, r := range reqs {
			good, w := c06SignedBy(ev, payload, r.Server, keys, func(k c06RKey) (bool, string) { return c06ValidAt(k, ts, tr.StrictKeys, now) })
			if !good {
				if all {
					role, why = r.Role, w
				}
				all = false
				n++
			}
		}
		return
	}
	v.lo, v.badRole, v.badWhy, v.nFaulty = eval(now0 - c06Slack)
	v.hi, _, _, _ = eval(now1 + c06Slack)
	if v.lo {
		ctx.Class("expect/success")
	} else {
		ctx.Class("expect/failure")
		ctx.Class("invalid/" + v.badWhy)
		ctx.Class(fmt.Sprintf("invalid-required/%d-of-%d", v.nFaulty, len(reqs)))
	}
	if len(reqs) >= 2 || (len(reqs) == 1 && v.nFaulty == 1) || len(c.Extras) > 0 {
		ctx.NonTrivial()
	}
	var reqNames []string
	for _, r := range reqs {
		reqNames = append(reqNames, r.Server+"("+r.Role+")")
	}
	detail := fmt.Sprintf("version %s, required %v, origin_server_ts %d, event %s", c.Version, reqNames, ts, wire)

	c06Judge(ctx, "stub", serr, v, detail)
	if len(kerrs) != 1 {
		ctx.Fail("C06/keyring/verify-all-length", "VerifyAllEventSignatures returned %d results for 1 event", len(kerrs))
	} else {
		c06Judge(ctx, "keyring", kerrs[0], v, detail)
	}

	// batches: the verdict of an event does not depend on what else is in the batch - in particular not
	// on another object under the same event ID (here: the same event with every signature removed,
	// which can never verify while a server is required)
	if len(kerrs) == 1 && len(reqs) > 0 && v.lo == v.hi {
		var bare PDU
		var berr2 error
		bareWire := []byte(jplain(ev.with("signatures", jv{K: 'o'})))
		if vfCatch(ctx, "C06/batch", func() { bare, berr2 = impl.NewEventFromTrustedJSON(bareWire, false) }) {
			return
		}
		if berr2 == nil && bare != nil {
			for _, order := range []string{"event-first", "bare-first"} {
				batch := []PDU{pdu, bare}
				if order == "bare-first" {
					batch = []PDU{bare, pdu}
				}
				var errs []error
				if vfCatch(ctx, "C06/batch", func() {
					errs = VerifyAllEventSignatures(c06Ctx(), batch, KeyRing{KeyDatabase: c06NewDB(keys)}, vfUserIDForSender)
				}) {
					return
				}
				if len(errs) != 2 {
					ctx.Fail("C06/batch/verify-all-length", "VerifyAllEventSignatures returned %d results for 2 events", len(errs))
					break
				}
				ctx.Class("batch/" + order)
				eventErr, bareErr := errs[0], errs[1]
				if order == "bare-first" {
					eventErr, bareErr = errs[1], errs[0]
				}
				if bareErr == nil {
					ctx.Fail("C06/batch/unsigned-copy-accepted/"+order, "in a batch with the event itself, a copy without any signature is reported as verified; %s", detail)
				}
				if (eventErr == nil) != (kerrs[0] == nil) {
					ctx.Fail("C06/batch/verdict-differs-from-single/"+order, "alone the event gives %v, in a batch with an unsigned copy of itself %v; %s", kerrs[0], eventErr, detail)
				}
			}
			// the same batch for a caller whose context has already ended: whatever is reported, it is
			// one result per event and never "verified" for the copy that carries no signature
			for _, order := range []string{"event-first", "bare-first"} {
				batch := []PDU{pdu, bare}
				bareAt := 1
				if order == "bare-first" {
					batch, bareAt = []PDU{bare, pdu}, 0
				}
				dead, cancel := context.WithCancel(c06Ctx())
				cancel()
				var errs []error
				if vfCatch(ctx, "C06/batch-cancelled", func() {
					errs = VerifyAllEventSignatures(dead, batch, KeyRing{KeyDatabase: c06NewDB(keys)}, vfUserIDForSender)
				}) {
					return
				}
				ctx.Class("batch-cancelled/" + order)
				if len(errs) != 2 {
					ctx.Fail("C06/batch-cancelled/verify-all-length", "with an ended context VerifyAllEventSignatures returned %d results for 2 events", len(errs))
					break
				}
				if errs[bareAt] == nil {
					ctx.Fail("C06/batch-cancelled/unsigned-copy-accepted/"+order, "with an ended context a copy without any signature is reported as verified; %s", detail)
				}
				if errs[1-bareAt] == nil && kerrs[0] != nil {
					ctx.Fail("C06/batch-cancelled/accepted-what-fails-alone/"+order, "with an ended context the event is reported as verified although it fails alone with %v; %s", kerrs[0], detail)
				}
			}
		}
	}

	// a batch may hold events of several room versions (a server verifies what it received from many
	// rooms at once): every event is judged by ITS version's redaction, event-ID format and key-validity
	// rule. The companion is a valid create event of a version across the v9 / v11 redaction boundary.
	if len(kerrs) == 1 {
		compVer := "11"
		if tr.Redaction == "v11" {
			compVer = "10"
		}
		comp, cpub, cerr := c06Companion(compVer)
		if cerr != nil {
			ctx.Unjudged("companion event of version " + compVer + " not buildable: " + cerr.Error())
		} else {
			keys2 := append(append([]c06RKey(nil), keys...), c06RKey{Server: "companion.example", KeyID: "ed25519:comp", Pub: cpub, ValidUntil: uint64(time.Now().Add(24*time.Hour).UnixMilli()) + 1<<40})
			for _, order := range []string{"event-first", "companion-first"} {
				batch := []PDU{pdu, comp}
				if order == "companion-first" {
					batch = []PDU{comp, pdu}
				}
				var errs []error
				if vfCatch(ctx, "C06/mixed-batch", func() {
					errs = VerifyAllEventSignatures(c06Ctx(), batch, KeyRing{KeyDatabase: c06NewDB(keys2)}, vfUserIDForSender)
				}) {
					return
				}
				if len(errs) != 2 {
					ctx.Fail("C06/mixed-batch/verify-all-length", "VerifyAllEventSignatures returned %d results for 2 events", len(errs))
					break
				}
				ctx.Class("mixed-batch/" + order)
				eventErr, compErr := errs[0], errs[1]
				if order == "companion-first" {
					eventErr, compErr = errs[1], errs[0]
				}
				if compErr != nil {
					ctx.Fail("C06/mixed-batch/valid-event-of-another-version-rejected/"+order, "a validly signed create event of room version %s is rejected (%v) when verified in one batch with an event of room version %s; %s", compVer, compErr, c.Version, detail)
				}
				if (eventErr == nil) != (kerrs[0] == nil) {
					ctx.Fail("C06/mixed-batch/verdict-differs-from-single/"+order, "alone the event gives %v, in a batch with an event of room version %s it gives %v; %s", kerrs[0], compVer, eventErr, detail)
				}
			}
		}
	}

	// which servers was the verifier asked about, and for which time?
	if stub.nilFn {
		ctx.Fail("C06/stub/no-validity-function", "a VerifyJSONRequest carries no ValidityCheckingFunc, so the room version's key-validity rule cannot be applied; %s", detail)
	}
	if serr == nil || stub.calls > 0 {
		asked := c06SortedSet(stub.asked)
		for _, r := range reqs {
			found := false
			for _, a := range asked {
				found = found || a == r.Server
			}
			if !found {
				ctx.Fail("C06/asked/required-server-not-checked/"+r.Role, "the verifier was never asked about %s (%s); asked %v; %s", r.Server, r.Role, asked, detail)
			}
		}
		for _, a := range asked {
			found := false
			for _, r := range reqs {
				found = found || a == r.Server
			}
			if !found {
				ctx.Fail("C06/asked/other-server-checked/"+c06GuessRole(c.Version, ev, a), "the verifier was asked about %s, which is not a required server; required %v; %s", a, reqNames, detail)
			}
		}
		for _, at := range stub.atTS {
			if at != ts {
				ctx.Fail("C06/stub/at-ts", "a signature was checked for time %d, origin_server_ts is %d; %s", at, ts, detail)
				break
			}
		}
	}
}

// c06GuessRole says what a not-required server is to the event (signature stem only).
func c06GuessRole(version string, ev jv, server string) string {
	ct, _ := ev.get("content")
	if d, ok := c06Domain(evStr(ev, "state_key"), '@'); ok && d == server {
		return "state-key-server"
	}
	if d, ok := c06Domain(evStr(ct, "join_authorised_via_users_server"), '@'); ok && d == server {
		return "join_authorised_via_users_server"
	}
	if d, ok := c06Domain(evStr(ev, "room_id"), '!'); ok && d == server {
		return "room-id-server"
	}
	if d, ok := c06Domain(evStr(ev, "event_id"), '$'); ok && d == server {
		return "event-id-server"
	}
	return "unrelated"
}

func c06Short(err error) string {
	s := err.Error()
	if i := strings.IndexAny(s, ":{"); i > 0 {
		s = s[:i]
	}
	if len(s) > 60 {
		s = s[:60]
	}
	return s
}

// ---------------------------------------------------------------------------------------------
// Generator

var c06Versions = func() []string {
	var out []string
	for _, v := range vfVersions {
		if v != "org.matrix.msc4014" {
			out = append(out, v)
		}
	}
	return out
}()

var c06Servers = []string{"a.example", "b.example:8448", "c.example", "d.example", "1.2.3.4", "[2001:db8::1]:8448"}
var c06ExtraServers = []string{"evil.example", "z.example:8448", "a.example", "b.example:8448", "c.example", "d.example", "1.2.3.4"}

func c06GenUser(t *rapid.T, label string) string {
	return "@" + rapid.SampledFrom([]string{"alice", "bob", "carol", "alice", "bob", "carol", "t&j<1>"}).Draw(t, label+"Local") + ":" + rapid.SampledFrom(c06Servers).Draw(t, label+"Server")
}

func c06GenUserAway(t *rapid.T, label, server string) string {
	// three times out of four on another server than `server`
	u := c06GenUser(t, label)
	if rapid.IntRange(0, 3).Draw(t, label+"Away") > 0 {
		for i := 0; i < len(c06Servers); i++ {
			if d, _ := c06Domain(u, '@'); d != server {
				break
			}
			u = "@dave:" + c06Servers[(i+1)%len(c06Servers)]
		}
	}
	return u
}

var c06Faults = []string{
	"absent", "absent", "absent-empty-entry", "flip", "flip", "trunc", "nob64", "wrong-key", "wrong-key", "unknown-key",
	"otherpayload", "unredacted", "unsupported-alg-only", "expired-before-ts", "expired-before-ts", "stale-valid-until", "stale-valid-until", "no-valid-until",
}

var c06KeyOKDeltas = []int64{0, 1, c06Second, c06Day, c06Year, 300 * c06Year}
var c06KeyBadDeltas = []int64{1, c06Second, c06Day, c06Year}

// c06PlanSigner adds signatures and key rows for one server according to fault.
func c06PlanSigner(t *rapid.T, sigs []c06Sig, empty []string, keys []c06Key, server, fault string, ts c06TS) ([]c06Sig, []string, []c06Key) {
	kid := vfGenKeyID(t, "kid")
	own := "c06:" + server + "/" + kid
	okRow := func(id, label string) c06Key {
		row := c06Key{Server: server, KeyID: id, Label: label}
		if rapid.IntRange(0, 3).Draw(t, "okFlavour") == 0 {
			// an old key that expired after the event was made
			row.Expired = ts.plus(rapid.SampledFrom(c06KeyBadDeltas).Draw(t, "expiredLater"))
		} else {
			row.ValidUntil = ts.plus(rapid.SampledFrom(c06KeyOKDeltas).Draw(t, "validFor"))
		}
		return row
	}
	switch fault {
	case "ok":
		sigs = append(sigs, c06Sig{Server: server, KeyID: kid, By: own})
		keys = append(keys, okRow(kid, own))
	case "ok-and-bad-second":
		kid2 := kid + "x"
		sigs = append(sigs, c06Sig{Server: server, KeyID: kid, By: own})
		keys = append(keys, okRow(kid, own))
		sigs = append(sigs, c06Sig{Server: server, KeyID: kid2, By: "c06evil:" + server, Mangle: rapid.SampledFrom([]string{"", "flip", "trunc", "nob64"}).Draw(t, "second")})
		if rapid.Bool().Draw(t, "secondKnown") {
			keys = append(keys, okRow(kid2, "c06:"+server+"/"+kid2))
		}
	case "absent":
		if rapid.Bool().Draw(t, "rowAnyway") {
			keys = append(keys, okRow(kid, own))
		}
	case "absent-empty-entry":
		empty = append(empty, server)
		keys = append(keys, okRow(kid, own))
	case "flip", "trunc", "nob64", "otherpayload", "unredacted":
		sigs = append(sigs, c06Sig{Server: server, KeyID: kid, By: own, Mangle: fault})
		keys = append(keys, okRow(kid, own))
	case "unsupported-alg-only":
		// a correct signature by the server's key, filed (and stored) under a key ID of another algorithm
		akid := rapid.SampledFrom([]string{"rsa:", "ed25518:", "ED25519:", "curve25519:", ""}).Draw(t, "alg") + strings.TrimPrefix(kid, "ed25519:")
		sigs = append(sigs, c06Sig{Server: server, KeyID: akid, By: own})
		keys = append(keys, okRow(akid, own))
	case "wrong-key":
		sigs = append(sigs, c06Sig{Server: server, KeyID: kid, By: "c06evil:" + server})
		keys = append(keys, okRow(kid, own))
	case "unknown-key":
		sigs = append(sigs, c06Sig{Server: server, KeyID: kid, By: own})
	case "expired-before-ts":
		sigs = append(sigs, c06Sig{Server: server, KeyID: kid, By: own})
		keys = append(keys, c06Key{Server: server, KeyID: kid, Label: own, Expired: ts.plus(-rapid.SampledFrom([]int64{0, 1, c06Second, c06Day}).Draw(t, "expiredBefore"))})
	case "stale-valid-until":
		sigs = append(sigs, c06Sig{Server: server, KeyID: kid, By: own})
		keys = append(keys, c06Key{Server: server, KeyID: kid, Label: own, ValidUntil: ts.plus(-rapid.SampledFrom(c06KeyBadDeltas).Draw(t, "staleBy"))})
	case "no-valid-until":
		sigs = append(sigs, c06Sig{Server: server, KeyID: kid, By: own})
		keys = append(keys, c06Key{Server: server, KeyID: kid, Label: own})
	}
	return sigs, empty, keys
}

func c06GenTS(t *rapid.T) c06TS {
	switch rapid.IntRange(0, 9).Draw(t, "tsMode") {
	case 0, 1:
		// around now, at least an hour inside the seven-day cap
		return c06TS{Rel: true, V: rapid.Int64Range(-30*c06Day, c06Week-c06Hour).Draw(t, "tsRel")}
	case 2:
		// beyond now+7d by at least an hour
		return c06TS{Rel: true, V: rapid.Int64Range(c06Week+c06Hour, 400*c06Day).Draw(t, "tsFar")}
	case 3:
		// centuries ahead (an origin_server_ts is whatever the sender writes): beyond what a
		// time.Duration / UnixNano can hold
		return c06TS{V: rapid.SampledFrom([]int64{9223372036854, 9223372036855, 9300000000000, 18446744073709, 9007199254740991}).Draw(t, "tsHuge")}
	default:
		return c06TS{V: rapid.Int64Range(100000000000, 1600000000000).Draw(t, "tsAbs")}
	}
}

func c06Gen(t *rapid.T) c06Case {
	version := rapid.SampledFrom(c06Versions).Draw(t, "version")
	tr := vtraits[version]
	c := c06Case{Version: version}
	c.Sender = c06GenUser(t, "sender")
	senderServer, _ := c06Domain(c.Sender, '@')
	c.Kind = rapid.SampledFrom([]string{"member", "member", "member", "member", "member", "message", "custom-state", "create", "power_levels", "decoy", "decoy"}).Draw(t, "kind")
	content := jv{K: 'o'}
	str := func(s string) *string { return &s }
	authVia := func(p int) {
		if rapid.IntRange(0, 9).Draw(t, "authVia") < p {
			content = content.with("join_authorised_via_users_server", jstr(c06GenUserAway(t, "authoriser", senderServer)))
		}
	}
	switch c.Kind {
	case "member":
		c.Type = "m.room.member"
		membership := rapid.SampledFrom([]string{"join", "join", "join", "join", "invite", "invite", "invite", "invite", "leave", "ban", "knock", "", "foo"}).Draw(t, "membership")
		c.Kind = "member/" + membership
		if membership != "" {
			content = content.with("membership", jstr(membership))
		} else {
			c.Kind = "member/no-membership"
		}
		switch membership {
		case "join":
			c.StateKey = str(c.Sender)
			if rapid.IntRange(0, 5).Draw(t, "joinOther") == 0 {
				c.StateKey = str(c06GenUser(t, "target"))
			}
			authVia(6)
			if _, has := content.get("join_authorised_via_users_server"); has {
				c.Kind = "member/join+authorised-via"
			}
		case "invite":
			c.StateKey = str(c06GenUserAway(t, "invitee", senderServer))
			authVia(2)
		default:
			c.StateKey = str(c06GenUserAway(t, "target", senderServer))
			authVia(2)
		}
		if rapid.Bool().Draw(t, "displayname") {
			content = content.with("displayname", jstr("Alice")).with("reason", jstr("because"))
		}
		if rapid.IntRange(0, 3).Draw(t, "tpiBlock") == 0 {
			// member events of any membership may carry the third_party_invite block of the invitation
			// they stem from; who must sign the EVENT does not depend on it
			content = content.with("third_party_invite", jobj("display_name", jstr("b..."), "signed",
				jobj("mxid", jstr(*c.StateKey), "token", jstr("tok"), "signatures", jobj("id.example", jobj("ed25519:0", jstr("AAAA"))))))
		}
	case "message":
		c.Type = rapid.SampledFrom([]string{"m.room.message", "m.room.message", "org.example.<&>", "m.room.encrypted"}).Draw(t, "messageType")
		content = jobj("msgtype", jstr("m.text"), "body", jstr("hello"))
	case "custom-state":
		c.Type = "org.example.custom"
		c.StateKey = str(rapid.SampledFrom([]string{"", "k", "@bob:d.example", "tom&jerry", "<b>", "a\u2028b\u2029"}).Draw(t, "customKey"))
		content = jobj("x", jnum(1))
	case "create":
		c.Type = "m.room.create"
		c.StateKey = str("")
		content = jobj("room_version", jstr(version))
		if tr.CreatorField {
			content = content.with("creator", jstr(c.Sender))
		}
	case "power_levels":
		c.Type = "m.room.power_levels"
		c.StateKey = str("")
		content = jobj("users", jobj(c.Sender, jnum(100)), "users_default", jnum(0))
	case "decoy":
		// not a membership event, but looks like an invite / an authorised join in every other respect
		c.Type = rapid.SampledFrom([]string{"m.room.message", "org.example.custom", "m.room.member.not", "m.room.power_levels"}).Draw(t, "decoyType")
		c.StateKey = str(c06GenUserAway(t, "target", senderServer))
		content = jobj("membership", jstr(rapid.SampledFrom([]string{"invite", "join"}).Draw(t, "decoyMembership")))
		authVia(7)
	}
	c.Content = vfBytes(jplain(content))
	switch {
	case tr.Creators && c.Type == "m.room.create" && c.StateKey != nil && *c.StateKey == "":
		c.RoomID = ""
	case tr.Creators:
		sum := sha256.Sum256([]byte("c06-room"))
		c.RoomID = "!" + base64.RawURLEncoding.EncodeToString(sum[:])
	default:
		c.RoomID = "!room:" + rapid.SampledFrom(c06Servers).Draw(t, "roomServer")
	}
	if tr.IDFormat == 1 {
		c.EventIDServer = senderServer
		if rapid.IntRange(0, 2).Draw(t, "idElsewhere") > 0 {
			c.EventIDServer = rapid.SampledFrom(c06Servers).Draw(t, "idServer")
		}
	}
	c.Depth = int64(rapid.IntRange(1, 100).Draw(t, "depth"))
	c.TS = c06GenTS(t)
	if rapid.IntRange(0, 2).Draw(t, "hasUnsigned") == 0 {
		c.Unsigned = vfBytes(`{"age":5}`)
	}
	c.Untrusted = rapid.Bool().Draw(t, "untrusted")

	// required servers (the check recomputes them; the generator only needs them to place faults)
	tree, err := c06Unsigned(c, 1)
	if err != nil {
		t.Fatalf("c06Gen: %v", err)
	}
	reqs, _ := c06Required(version, tree)
	faulty := map[int]bool{}
	switch m := rapid.IntRange(0, 19).Draw(t, "faultMode"); {
	case m < 7: // all required servers sign validly
	case m < 16: // exactly one is faulty
		faulty[rapid.IntRange(0, len(reqs)-1).Draw(t, "faultyOne")] = true
	default:
		for i := range reqs {
			faulty[i] = rapid.Bool().Draw(t, "faultyEach")
		}
	}
	for i, r := range reqs {
		fault := "ok"
		if faulty[i] {
			fault = rapid.SampledFrom(c06Faults).Draw(t, "fault")
		} else if rapid.IntRange(0, 7).Draw(t, "twoSigs") == 0 {
			fault = "ok-and-bad-second"
		}
		c.Plan = append(c.Plan, c06Plan{Server: r.Server, Role: r.Role, Fault: fault})
		c.Sigs, c.Empty, c.Keys = c06PlanSigner(t, c.Sigs, c.Empty, c.Keys, r.Server, fault, c.TS)
	}
	// 0-2 signatures of servers that are not required
	nExtra := rapid.SampledFrom([]int{0, 0, 1, 1, 1, 2}).Draw(t, "nExtra")
	for i := 0; i < nExtra; i++ {
		s := rapid.SampledFrom(c06ExtraServers).Draw(t, "extraServer")
		taken := false
		for _, r := range reqs {
			taken = taken || r.Server == s
		}
		for _, x := range c.Extras {
			taken = taken || x.Server == s
		}
		if taken {
			continue
		}
		kind := rapid.SampledFrom([]string{"ok", "ok", "ok", "unknown-key", "wrong-key", "flip", "rand64", "trunc", "nob64", "nob64", "nonstring", "absent-empty-entry", "expired-before-ts"}).Draw(t, "extraKind")
		c.Extras = append(c.Extras, c06Plan{Server: s, Role: "extra", Fault: kind})
		if kind == "rand64" || kind == "nonstring" {
			kid := vfGenKeyID(t, "kid")
			c.Sigs = append(c.Sigs, c06Sig{Server: s, KeyID: kid, By: "c06:" + s + "/" + kid, Mangle: kind})
			continue
		}
		c.Sigs, c.Empty, c.Keys = c06PlanSigner(t, c.Sigs, c.Empty, c.Keys, s, kind, c.TS)
	}
	return c
}

// ---------------------------------------------------------------------------------------------
// C06/pseudo — org.matrix.msc4014: the sender is a base64 ed25519 public key that signs the event
// itself (key ID ed25519:1, self-verification); a join carries content.mxid_mapping
// {user_room_key, user_id, signatures} signed by the server of user_id; an invite is also signed by
// the invited pseudo ID. Reading of the statement for these rooms: the "sender's server" of a join is
// the server of mxid_mapping.user_id (the only place it can sign), the sender's / invitee's own
// signature stands for "sender's server" / "invited user's server" on the event.

const c06PseudoVersion = "org.matrix.msc4014"

type c06PCase struct {
	Kind       string   `json:"kind"`    // message | join | leave | knock | invite
	Sender     string   `json:"sender"`  // vfKeyFor label of the sender's room key
	Invitee    string   `json:"invitee"` // label of the invited pseudo ID's key
	Depth      int64    `json:"depth"`
	TS         c06TS    `json:"ts"`
	Self       string   `json:"self"`        // ok | absent | flip | wrong-key | otherpayload
	InviteeSig string   `json:"invitee_sig"` // same alphabet
	Mapping    string   `json:"mapping"`     // generator's label (classes only)
	HasMapping bool     `json:"has_mapping"`
	MapUser    string   `json:"map_user"`
	MapNoSigs  bool     `json:"map_no_sigs"` // omit the "signatures" member of the mapping entirely
	MapSigs    []c06Sig `json:"map_sigs"`
	Keys       []c06Key `json:"keys"`
	Untrusted  bool     `json:"untrusted"`
}

func c06PseudoID(label string) string {
	pub, _ := vfKeyFor(label)
	return base64.RawStdEncoding.EncodeToString(pub)
}

func c06SelfSig(ev jv, who, byLabel, mode string, payload, alt []byte) jv {
	switch mode {
	case "absent":
		return ev
	case "wrong-key":
		byLabel = "c06evil:" + byLabel
		mode = ""
	case "ok":
		mode = ""
	}
	return c06AddSig(ev, who, "ed25519:1", c06SigValue(c06Sig{By: byLabel, Mangle: mode}, payload, alt, payload))
}

func c06PCheck(ctx *vfCtx, c c06PCase) {
	impl, err := GetRoomVersion(RoomVersion(c06PseudoVersion))
	if err != nil {
		ctx.Fail("C06/unknown-version", "version %q", c06PseudoVersion)
		return
	}
	now0 := time.Now().UnixMilli()
	ts := c.TS.ms(now0)
	sender := c06PseudoID(c.Sender)
	invitee := c06PseudoID(c.Invitee)
	keys := c06Resolve(c.Keys, now0)

	// the mapping, signed by the reference signer
	mapping := jobj("user_room_key", jstr(sender), "user_id", jstr(c.MapUser))
	mapPayload := []byte(jcanon(mapping))
	mapAlt := []byte(jcanon(mapping.with("user_id", jstr("@mallory:evil.example"))))
	if !c.MapNoSigs {
		mapping = mapping.with("signatures", jv{K: 'o'})
	}
	for _, s := range c.MapSigs {
		mapping = c06AddSig(mapping, s.Server, s.KeyID, c06SigValue(s, mapPayload, mapAlt, mapPayload))
	}

	ec := c06Case{Version: c06PseudoVersion, Sender: sender, RoomID: "!room:a.example", Depth: c.Depth, Untrusted: c.Untrusted}
	content := jv{K: 'o'}
	switch c.Kind {
	case "message":
		ec.Type = "m.room.message"
		content = jobj("body", jstr("hi"), "msgtype", jstr("m.text"))
	case "invite":
		ec.Type, ec.StateKey = "m.room.member", &invitee
		content = jobj("membership", jstr("invite"))
	default:
		ec.Type, ec.StateKey = "m.room.member", &sender
		content = jobj("membership", jstr(c.Kind))
	}
	if c.HasMapping {
		content = content.with("mxid_mapping", mapping)
	}
	ec.Content = vfBytes(jplain(content))
	ev, berr := c06Unsigned(ec, ts)
	if berr != nil {
		ctx.Unjudged("generator: " + berr.Error())
		return
	}
	ev = ev.with("hashes", jobj("sha256", jstr(rcontentHash(ev))))
	payload := c06Payload(c06PseudoVersion, ev)
	alt := c06Payload(c06PseudoVersion, ev.with("depth", jnum(c.Depth+1)))
	ev = c06SelfSig(ev, sender, c.Sender, c.Self, payload, alt)
	if c.Kind == "invite" {
		ev = c06SelfSig(ev, invitee, c.Invitee, c.InviteeSig, payload, alt)
	}
	wire := []byte(jplain(ev))

	ctx.Class("pseudo/kind/" + c.Kind)
	ctx.Class("pseudo/self/" + c.Self)
	if c.Kind == "invite" {
		ctx.Class("pseudo/invitee-signature/" + c.InviteeSig)
	}
	if c.Kind == "join" {
		ctx.Class("pseudo/mapping/" + c.Mapping)
	} else if c.HasMapping {
		ctx.Class("pseudo/mapping-on-non-join/" + c.Mapping)
	}
	ctx.Class(c06TSClass(c.TS))

	var pdu PDU
	if vfCatch(ctx, "C06/pseudo", func() {
		if c.Untrusted {
			pdu, err = impl.NewEventFromUntrustedJSON(append([]byte(nil), wire...))
		} else {
			pdu, err = impl.NewEventFromTrustedJSON(append([]byte(nil), wire...), false)
		}
	}) {
		return
	}
	if err != nil {
		ctx.Class("parser-rejected")
		ctx.Unjudged("event rejected by the parser: " + c06Short(err))
		return
	}
	userFor := func(roomID spec.RoomID, senderID spec.SenderID) (*spec.UserID, error) {
		return spec.NewUserID(c.MapUser, true)
	}
	stub := &c06Stub{keys: keys}
	var serr, kerr error
	if vfCatch(ctx, "C06/pseudo/stub", func() { serr = VerifyEventSignatures(c06Ctx(), pdu, stub, userFor) }) {
		return
	}
	if vfCatch(ctx, "C06/pseudo/keyring", func() {
		kerr = VerifyEventSignatures(c06Ctx(), pdu, KeyRing{KeyDatabase: c06NewDB(keys)}, userFor)
	}) {
		return
	}
	now1 := time.Now().UnixMilli()

	// oracle
	selfKeys := []c06RKey{
		{Server: sender, KeyID: "ed25519:1", Pub: c06Pub(c.Sender)},
		{Server: invitee, KeyID: "ed25519:1", Pub: c06Pub(c.Invitee)},
	}
	always := func(c06RKey) (bool, string) { return true, "" }
	userServer, _ := c06Domain(c.MapUser, '@')
	eval := func(now int64) (bool, string, string) {
		if good, w := c06SignedBy(ev, payload, sender, selfKeys, always); !good {
			return false, "sender-pseudo-id", w
		}
		if c.Kind == "invite" {
			if good, w := c06SignedBy(ev, payload, invitee, selfKeys, always); !good {
				return false, "invitee-pseudo-id", w
			}
		}
		if c.Kind == "join" {
			if !c.HasMapping {
				return false, "mxid_mapping", "missing"
			}
			good, w := c06SignedBy(mapping, mapPayload, userServer, keys, func(k c06RKey) (bool, string) { return c06ValidAt(k, ts, true, now) })
			if !good {
				return false, "mxid_mapping-user-server", w
			}
		}
		return true, "", ""
	}
	var v c06Verdict
	v.lo, v.badRole, v.badWhy = eval(now0 - c06Slack)
	v.hi, _, _ = eval(now1 + c06Slack)
	v.extraTag = "pseudo"
	foreignBad := false
	for _, s := range c.MapSigs {
		if s.Server != userServer {
			v.extraTag = "pseudo-mapping-also-signed-by-another-server"
			if good, _ := c06SignedBy(mapping, mapPayload, s.Server, keys, func(k c06RKey) (bool, string) { return c06ValidAt(k, ts, true, now0) }); !good {
				foreignBad = true
			}
		}
	}
	if v.lo {
		ctx.Class("expect/success")
	} else {
		ctx.Class("expect/failure")
		ctx.Class("invalid/" + v.badRole + "/" + v.badWhy)
	}
	if c.Kind == "join" || c.Kind == "invite" || c.Self != "ok" {
		ctx.NonTrivial()
	}
	detail := fmt.Sprintf("version %s, origin_server_ts %d, event %s", c06PseudoVersion, ts, wire)
	if v.lo && foreignBad && c.Kind == "join" {
		// the statement does not say whether further signatures on the mapping must be ignored
		ctx.Class("pseudo/unjudged-foreign-bad-mapping-signature")
		if serr == nil != (kerr == nil) {
			ctx.Fail("C06/pseudo/verifiers-disagree", "stub verdict %v, key ring verdict %v; %s", serr, kerr, detail)
		}
		ctx.Unjudged("valid mapping signature of the user's server plus an invalid one of another server: statement silent")
		return
	}
	c06Judge(ctx, "pseudo/stub", serr, v, detail)
	c06Judge(ctx, "pseudo/keyring", kerr, v, detail)
	if c.Kind == "join" && c.HasMapping && stub.calls > 0 {
		for _, at := range stub.atTS {
			if at != ts {
				ctx.Fail("C06/pseudo/at-ts", "the mapping signature was checked for time %d, origin_server_ts is %d; %s", at, ts, detail)
				break
			}
		}
		if stub.nilFn {
			ctx.Fail("C06/pseudo/no-validity-function", "the mapping's VerifyJSONRequest carries no ValidityCheckingFunc; %s", detail)
		}
	}
}

func c06Pub(label string) ed25519.PublicKey { pub, _ := vfKeyFor(label); return pub }

func c06PGen(t *rapid.T) c06PCase {
	c := c06PCase{}
	c.Kind = rapid.SampledFrom([]string{"join", "join", "join", "join", "join", "message", "leave", "knock", "invite", "invite"}).Draw(t, "kind")
	c.Sender = "c06room:" + rapid.SampledFrom([]string{"s1", "s2", "s3"}).Draw(t, "senderKey")
	c.Invitee = "c06room:" + rapid.SampledFrom([]string{"i1", "i2"}).Draw(t, "inviteeKey")
	c.Depth = int64(rapid.IntRange(1, 100).Draw(t, "depth"))
	c.TS = c06GenTS(t)
	c.Untrusted = rapid.Bool().Draw(t, "untrusted")
	sigMode := func(label string) string {
		return rapid.SampledFrom([]string{"ok", "ok", "ok", "ok", "ok", "ok", "absent", "flip", "wrong-key", "otherpayload", "trunc"}).Draw(t, label)
	}
	c.Self = sigMode("self")
	c.InviteeSig = "ok"
	if c.Kind == "invite" {
		c.InviteeSig = sigMode("inviteeSig")
	}
	c.MapUser = c06GenUser(t, "mapUser")
	userServer, _ := c06Domain(c.MapUser, '@')
	c.Mapping = "none"
	wantMapping := c.Kind == "join" || rapid.IntRange(0, 3).Draw(t, "mappingAnyway") == 0
	if !wantMapping {
		return c
	}
	c.Mapping = rapid.SampledFrom([]string{"ok", "ok", "ok", "ok", "ok", "missing", "unsigned", "unsigned-no-member", "flip", "wrong-key", "unknown-key",
		"otherpayload", "expired-before-ts", "stale-valid-until", "no-valid-until", "foreign-only", "ok+foreign-ok", "ok+foreign-bad"}).Draw(t, "mapping")
	c.HasMapping = c.Mapping != "missing"
	foreign := "evil.example"
	switch c.Mapping {
	case "missing":
	case "unsigned":
	case "unsigned-no-member":
		c.MapNoSigs = true
	case "foreign-only":
		c.MapSigs, _, c.Keys = c06PlanSigner(t, nil, nil, nil, foreign, "ok", c.TS)
	case "ok+foreign-ok":
		c.MapSigs, _, c.Keys = c06PlanSigner(t, nil, nil, nil, userServer, "ok", c.TS)
		c.MapSigs, _, c.Keys = c06PlanSigner(t, c.MapSigs, nil, c.Keys, foreign, "ok", c.TS)
	case "ok+foreign-bad":
		c.MapSigs, _, c.Keys = c06PlanSigner(t, nil, nil, nil, userServer, "ok", c.TS)
		c.MapSigs, _, c.Keys = c06PlanSigner(t, c.MapSigs, nil, c.Keys, foreign, rapid.SampledFrom([]string{"flip", "wrong-key", "unknown-key"}).Draw(t, "foreignBad"), c.TS)
	default:
		c.MapSigs, _, c.Keys = c06PlanSigner(t, nil, nil, nil, userServer, c.Mapping, c.TS)
	}
	return c
}

func init() {
	vfRapid("C06/required-signers",
		"non-trivial = at least two required servers, or exactly one required server whose signature is faulty, or an unrelated extra signature present; distinct = distinct Case JSON",
		2000, 40000, 16, c06Gen, c06Check)
	vfRapid("C06/pseudo",
		"non-trivial = a join (mxid_mapping judged) or an invite (two pseudo-ID signers), or a faulty sender signature; distinct = distinct Case JSON",
		600, 10000, 8, c06PGen, c06PCheck)
}

// ---------------------------------------------------------------------------------------------
// C06/self-verifier-batch — the verifier of pseudo-ID rooms (JSONVerifierSelf: the "server name" of a
// request is the sender's key) on batches: one result per request, in request order, each the
// verdict the request gets on its own - whatever stands before or after it in the batch, whatever
// the context.

type c06SelfReq struct {
	Signer string `json:"signer"` // key label of the pseudo ID the request names
	Kind   string `json:"kind"`   // good | tampered | other-key | unsigned | not-a-key
}

type c06SelfCase struct {
	Reqs  []c06SelfReq `json:"reqs"`
	Ended bool         `json:"ended_context,omitempty"`
}

func c06SelfGen(t *rapid.T) c06SelfCase {
	var c c06SelfCase
	n := rapid.IntRange(1, 5).Draw(t, "n")
	for i := 0; i < n; i++ {
		c.Reqs = append(c.Reqs, c06SelfReq{Signer: rapid.SampledFrom([]string{"alice", "bob", "carol"}).Draw(t, "signer"),
			Kind: rapid.SampledFrom([]string{"good", "good", "tampered", "other-key", "unsigned", "not-a-key"}).Draw(t, "kind")})
	}
	c.Ended = rapid.IntRange(0, 3).Draw(t, "ended") == 0
	return c
}

func c06SelfCheck(ctx *vfCtx, c c06SelfCase) {
	var reqs []VerifyJSONRequest
	var want []bool
	for i, r := range c.Reqs {
		name := c06PseudoID(r.Signer)
		_, priv := vfKeyFor(r.Signer)
		obj := jobj("n", jnum(int64(i)), "room", jstr("!r:x"), "who", jstr(name))
		payload := []byte(jcanon(obj))
		sig := ed25519.Sign(priv, payload)
		switch r.Kind {
		case "tampered":
			obj = obj.with("n", jnum(int64(i+100)))
		case "other-key":
			_, other := vfKeyFor("mallory")
			sig = ed25519.Sign(other, payload)
		case "not-a-key":
			name = "@" + r.Signer + ":a.example"
		}
		msg := obj
		if r.Kind != "unsigned" {
			msg = obj.with("signatures", jobj(name, jobj("ed25519:1", jstr(base64.RawStdEncoding.EncodeToString(sig)))))
		}
		reqs = append(reqs, VerifyJSONRequest{ServerName: spec.ServerName(name), Message: []byte(jplain(msg)), ValidityCheckingFunc: NoStrictValidityCheck})
		want = append(want, r.Kind == "good")
	}
	cx := c06Ctx()
	if c.Ended {
		var cancel context.CancelFunc
		cx, cancel = context.WithCancel(cx)
		cancel()
		ctx.Class("ended-context")
	}
	var got []VerifyJSONResult
	var err error
	if vfCatch(ctx, "C06/self-verifier-batch", func() { got, err = JSONVerifierSelf{}.VerifyJSONs(cx, reqs) }) {
		return
	}
	if len(c.Reqs) >= 2 {
		ctx.NonTrivial()
	}
	if err != nil {
		if c.Ended {
			return // refusing to work for a caller that has gone is fine
		}
		ctx.Fail("C06/self-verifier-batch/error", "VerifyJSONs failed as a whole: %v", err)
		return
	}
	if len(got) != len(reqs) {
		ctx.Fail("C06/self-verifier-batch/result-count", "%d requests, %d results", len(reqs), len(got))
		return
	}
	for i := range reqs {
		if ok := got[i].Error == nil; ok != want[i] {
			if ok || !c.Ended {
				ctx.Fail(fmt.Sprintf("C06/self-verifier-batch/wrong-verdict/%s", c.Reqs[i].Kind), "request %d of %d (%s, signer %s): verified=%v, want %v (error %v); batch %+v", i, len(reqs), c.Reqs[i].Kind, c.Reqs[i].Signer, ok, want[i], got[i].Error, c.Reqs)
				return
			}
		}
	}
}

func init() {
	vfRapid("C06/self-verifier-batch", "non-trivial = a batch of two or more requests (good, tampered, signed by another key, unsigned, named by something that is no key), in every order; distinct = distinct Case JSON", 1500, 40000, 4, c06SelfGen, c06SelfCheck)
}

// c06Companion builds (through the library's builder) a create event of the given room version, signed by
// companion.example with a key of its own; it verifies on its own (checked by the caller's batches).
func c06Companion(version string) (PDU, ed25519.PublicKey, error) {
	impl, err := GetRoomVersion(RoomVersion(version))
	if err != nil {
		return nil, nil, err
	}
	pub, priv := vfKeyFor("c06:companion")
	empty := ""
	content := fmt.Sprintf(`{"creator":"@c:companion.example","room_version":%q,"m.federate":true,"predecessor":{"room_id":"!old:companion.example","event_id":"$x"}}`, version)
	ev, err := impl.NewEventBuilderFromProtoEvent(&ProtoEvent{
		SenderID: "@c:companion.example", RoomID: "!c06companion:companion.example", Type: "m.room.create", StateKey: &empty,
		PrevEvents: []string{}, AuthEvents: []string{}, Depth: 1, Content: spec.RawJSON(content),
	}).Build(time.UnixMilli(1700000000000), "companion.example", "ed25519:comp", priv)
	return ev, pub, err
}
