//go:build verif

package gomatrixserverlib

// C12 — the key ring accepts a signature only from a fetched key valid at that time.
//
// This file holds what the two C12 sub-properties share: wall-clock-relative timestamps, the
// deterministic key pool, the independent reading of a signed JSON object (reference parser +
// reference canonical form + crypto/ed25519) and the independent validity rule.

import (
	stded "crypto/ed25519"
	"encoding/base64"
	"strconv"
	"strings"
)

// c12TS is a millisecond timestamp that is either absolute or relative to the wall clock read at
// the start of the check. Relative timestamps are what makes a Case replayable on another day:
// "database key valid for another hour", "AtTS two minutes beyond now+7d". Generators keep every
// relative timestamp at least one minute away from any boundary that the code under test compares
// with its own reading of the clock.
type c12TS struct {
	Rel bool  `json:"rel,omitempty"`
	V   int64 `json:"v"`
}

func (t c12TS) ms(now int64) uint64 {
	v := t.V
	if t.Rel {
		v += now
	}
	if v < 0 {
		v = 0
	}
	return uint64(v)
}

func (t c12TS) plus(d int64) c12TS { return c12TS{Rel: t.Rel, V: t.V + d} }
func (t c12TS) isZero() bool       { return !t.Rel && t.V == 0 }
func c12Abs(v int64) c12TS         { return c12TS{V: v} }
func c12Rel(v int64) c12TS         { return c12TS{Rel: true, V: v} }

const (
	c12Minute = int64(60 * 1000)
	c12Hour   = 60 * c12Minute
	c12Day    = 24 * c12Hour
	c12Week   = 7 * c12Day
	// c12Slack widens the interval in which the code under test may have read the clock.
	c12Slack = int64(5000)
)

// ---- key pool: deterministic key pairs, index -> key ----

const c12PoolSize = 14

var c12Pool = func() (out [c12PoolSize]stded.PrivateKey) {
	for i := range out {
		seed := make([]byte, stded.SeedSize)
		for j := range seed {
			seed[j] = byte(i*37 + j*5 + 1)
		}
		out[i] = stded.NewKeyFromSeed(seed)
	}
	return
}()

func c12Pub(i int) []byte {
	return append([]byte(nil), c12Pool[i%c12PoolSize].Public().(stded.PublicKey)...)
}

func c12SignWith(i int, msg []byte) []byte { return stded.Sign(c12Pool[i%c12PoolSize], msg) }

func c12B64Enc(b []byte) string { return base64.RawStdEncoding.EncodeToString(b) }

// c12B64 decodes Matrix "unpadded base64" (standard or URL-safe alphabet).
func c12B64(s string) ([]byte, bool) {
	enc := base64.RawStdEncoding
	if strings.ContainsAny(s, "-_") {
		enc = base64.RawURLEncoding
	}
	b, err := enc.DecodeString(s)
	return b, err == nil
}

// ---- independent reading of a signed JSON object ----

type c12Signed struct {
	Err   string // "" when the text is a JSON object
	Dup   bool   // duplicate keys or lone surrogates somewhere: parsers disagree, nothing is judged
	Obj   jv
	Canon []byte // reference canonical form of the object without "signatures" and "unsigned"
	// Odd: the "signatures" member contains something that is not signer -> key ID -> unpadded
	// base64 string. The library refuses such messages wholesale, which the statement neither
	// demands nor forbids, so completeness is not judged for them (soundness still is).
	Odd bool
	// OddHard: the "signatures" member itself is not an object (nothing can be read from it)
	OddHard bool
	Sigs    map[string]map[string][]byte // signer -> key ID -> decoded signature (well-formed entries)
	IDs     map[string][]string          // signer -> every key ID named, in source order
}

func c12Analyse(msg []byte) c12Signed {
	a := c12Signed{Sigs: map[string]map[string][]byte{}, IDs: map[string][]string{}}
	v, fl, err := jparse(msg)
	if err != nil {
		a.Err = "unparseable"
		return a
	}
	if v.K != 'o' {
		a.Err = "not-an-object"
		return a
	}
	a.Dup = fl.DupKeys || fl.LoneSurrogate
	a.Obj = v
	a.Canon = []byte(jcanon(v.without("signatures", "unsigned")))
	sv, ok := v.get("signatures")
	if !ok || sv.K == 'n' {
		return a
	}
	if sv.K != 'o' {
		a.Odd, a.OddHard = true, true
		return a
	}
	for _, sm := range sv.O {
		if sm.Val.K == 'n' {
			continue
		}
		if sm.Val.K != 'o' {
			a.Odd = true
			continue
		}
		for _, km := range sm.Val.O {
			a.IDs[sm.Key] = append(a.IDs[sm.Key], km.Key)
			if km.Val.K != 's' {
				a.Odd = true
				continue
			}
			raw, ok := c12B64(km.Val.S)
			if !ok {
				a.Odd = true
				continue
			}
			if a.Sigs[sm.Key] == nil {
				a.Sigs[sm.Key] = map[string][]byte{}
			}
			a.Sigs[sm.Key][km.Key] = raw
		}
	}
	return a
}

// supported lists the key IDs under which `signer` signed with the ed25519 algorithm
// (key ID = algorithm ":" version).
func (a c12Signed) supported(signer string) []string {
	var out []string
	for _, id := range a.IDs[signer] {
		if strings.HasPrefix(id, "ed25519:") {
			out = append(out, id)
		}
	}
	return out
}

// verifies reports whether the signature `signer` made under keyID verifies under key.
func (a c12Signed) verifies(signer, keyID string, key []byte) bool {
	sig, ok := a.Sigs[signer][keyID]
	if !ok || len(sig) != stded.SignatureSize || len(key) != stded.PublicKeySize {
		return false
	}
	return stded.Verify(stded.PublicKey(key), a.Canon, sig)
}

// c12ValidAt is the validity rule of the statement, for one reading `now` of the clock:
// an expired key is valid strictly before expired_ts; any other key is valid at or before
// valid_until_ts capped at now+7d under the strict rule (never, if it has no valid_until_ts),
// and always under the lenient rule.
func c12ValidAt(expired, validUntil, at uint64, strict bool, now int64) bool {
	if expired != 0 {
		return at < expired
	}
	if !strict {
		return true
	}
	if validUntil == 0 {
		return false
	}
	lim := validUntil
	if limit := uint64(now + c12Week); limit < lim {
		lim = limit
	}
	return at <= lim
}

// c12WhyInvalid names the clause of the rule that refuses (used in signatures).
func c12WhyInvalid(expired, validUntil, at uint64, now int64) string {
	switch {
	case expired != 0:
		return "at-or-after-expired-ts"
	case validUntil == 0:
		return "no-valid-until"
	case at > validUntil:
		return "after-valid-until"
	default:
		_ = now
		return "beyond-seven-day-cap"
	}
}

func c12Uint(tok string) (uint64, bool) {
	n, err := strconv.ParseUint(tok, 10, 64)
	return n, err == nil
}

func c12Flip(b []byte) []byte {
	out := append([]byte(nil), b...)
	if len(out) > 0 {
		out[len(out)/2] ^= 0x20
	}
	return out
}

// c12TagClasses splits a generator tag "prefix/a+b+c" into the classes prefix/a, prefix/b, prefix/c.
func c12TagClasses(prefix, tag string) []string {
	if tag == "" {
		return nil
	}
	head, tail := "", tag
	if i := strings.LastIndex(tag, "/"); i >= 0 {
		head, tail = tag[:i+1], tag[i+1:]
	}
	var out []string
	for _, b := range strings.Split(tail, "+") {
		out = append(out, prefix+head+b)
	}
	return out
}
