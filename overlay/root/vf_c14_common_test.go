//go:build verif

// C14 — only events that pass signature and auth checks leave federation verification.
//
// Shared pieces of the five sub-checks:
//   - the cast (servers, keys), a reference signer (rfinish / rsign) and the reference "has verified
//     signatures" predicate (rverify over the reference set of required signers);
//   - a signed-room builder on top of G-room (vf_room_test.go): every event of the drawn history is
//     signed by the servers the protocol requires (content hash and event ID are unaffected by
//     signing, so G-room's IDs stay valid), plus a "tainted branch": events whose auth events include
//     an event that the auth rules reject (G-room itself never cites a rejected event);
//   - G-fault: event-level fault injectors working on the wire JSON;
//   - scripted event providers (returns the event / nothing / an error / a substituted event);
//   - the reference model of CheckStateResponse (parsed -> signatures -> allowed by the auth events that
//     arrived with verified signatures or came from the provider), written on jv trees with R-auth.
package gomatrixserverlib

import (
	"context"
	"crypto/ed25519"
	"fmt"
	"io"
	"sort"
	"strings"

	"github.com/matrix-org/util"
	"github.com/sirupsen/logrus"
	"pgregory.net/rapid"
)

const (
	c14KeyID   = "ed25519:1"
	c14Mallory = "@mallory:m.example" // never a member of any generated room
)

// servers with a published key (G-room's users live on a/b/c.example)
var c14Servers = []string{"a.example", "b.example", "c.example", "m.example"}

// every registered room version except the pseudo-ID one (G-room's senders are user IDs)
var c14Versions = func() []string {
	var out []string
	for _, v := range vfVersions {
		if v != "org.matrix.msc4014" {
			out = append(out, v)
		}
	}
	return out
}()

func c14KeyLabel(server string) string { return "origin:" + server }

func c14HasKey(server string) bool {
	for _, s := range c14Servers {
		if s == server {
			return true
		}
	}
	return false
}

func c14Verifier() *vfStubVerifier {
	keys := map[string]map[string]vfStubKey{}
	for _, s := range c14Servers {
		keys[s] = map[string]vfStubKey{c14KeyID: {Label: c14KeyLabel(s)}}
	}
	return &vfStubVerifier{Keys: keys}
}

func c14Quiet() context.Context {
	l := logrus.New()
	l.SetOutput(io.Discard)
	logrus.SetOutput(io.Discard) // CheckStateResponse logs through the global logger
	return util.ContextWithLogger(context.Background(), logrus.NewEntry(l))
}

func c14Domain(id string) string {
	if i := strings.IndexByte(id, ':'); i >= 0 {
		return id[i+1:]
	}
	return ""
}

func c14VersionClass(version string) string {
	tr := vtraits[version]
	switch {
	case tr.Creators:
		return "version:creators(12,hydra)"
	case tr.Format == 1:
		return "version:format1(1,2)"
	case tr.Restricted:
		return "version:restricted(8-11,msc3787)"
	}
	return "version:3-7,msc3667"
}

// ---------------------------------------------------------------------------------------------
// Reference: required signers, signing, verified-signature predicate, auth event IDs, allowedness

// c14Required lists the servers whose signature the event needs (the sender's server first):
// the sender's server; in room versions 1 and 2 the server named in the event ID; for an invite the
// invited user's server; for a join authorised through a restricted join rule the authorising
// user's server (room versions that know restricted joins).
func c14Required(version string, ev jv) []string {
	tr := vtraits[version]
	var out []string
	add := func(s string) {
		if s == "" {
			return
		}
		for _, x := range out {
			if x == s {
				return
			}
		}
		out = append(out, s)
	}
	add(c14Domain(evStr(ev, "sender")))
	if tr.Format == 1 {
		add(c14Domain(evStr(ev, "event_id")))
	}
	if evStr(ev, "type") == "m.room.member" {
		ct, _ := ev.get("content")
		switch evStr(ct, "membership") {
		case "invite":
			add(c14Domain(evStr(ev, "state_key")))
		case "join":
			if tr.Restricted {
				add(c14Domain(evStr(ct, "join_authorised_via_users_server")))
			}
		}
	}
	return out
}

func c14Priv(server string) ed25519.PrivateKey {
	_, priv := vfKeyFor(c14KeyLabel(server))
	return priv
}

// c14Sign sets the content hash and the signatures of every required server (reference signer).
func c14Sign(version string, ev jv) jv {
	req := c14Required(version, ev)
	if len(req) == 0 {
		panic("c14 harness: event without a sender domain")
	}
	out := rfinish(version, ev, req[0], c14KeyID, c14Priv(req[0]))
	for _, s := range req[1:] {
		out = rsign(version, out, s, c14KeyID, c14Priv(s))
	}
	return out
}

// c14SigOK: every required server has a signature under its published key that verifies against
// the reference projection of the event.
func c14SigOK(version string, ev jv) bool {
	req := c14Required(version, ev)
	if len(req) == 0 {
		return false
	}
	for _, s := range req {
		if !c14HasKey(s) {
			return false
		}
		pub, _ := vfKeyFor(c14KeyLabel(s))
		if !rverify(version, ev, s, c14KeyID, pub) {
			return false
		}
	}
	return true
}

func c14IsCreate(ev jv) bool {
	sk, ok := ev.get("state_key")
	return evStr(ev, "type") == "m.room.create" && ok && sk.K == 's' && sk.S == ""
}

// c14AuthIDs: the event IDs the event names as its auth events (room versions with domain-less room
// IDs: the create event, whose ID is the room ID, is implied first).
func c14AuthIDs(version string, ev jv) []string {
	var out []string
	if vtraits[version].Creators {
		if c14IsCreate(ev) {
			return nil
		}
		if room := evStr(ev, "room_id"); len(room) > 1 {
			out = append(out, "$"+room[1:])
		}
	}
	ae, _ := ev.get("auth_events")
	for _, x := range ae.A {
		switch x.K {
		case 's':
			out = append(out, x.S)
		case 'a':
			if len(x.A) > 0 && x.A[0].K == 's' {
				out = append(out, x.A[0].S)
			}
		}
	}
	return out
}

// c14Allowed: R-auth's verdict on the event against the given auth events.
func c14Allowed(version string, ev jv, auth []jv) (allow bool, rule string, unjudged string) {
	// only state events can be auth events: an entry of auth_events that is, say, a message is not
	// something the selection rule can ever name, and the event citing it is not allowed
	for _, a := range auth {
		if sk, ok := a.get("state_key"); !ok || sk.K != 's' {
			return false, "A0.auth-event-is-not-a-state-event", ""
		}
	}
	st := raBuildState(version, auth)
	if why := raUnjudged(st); why != "" {
		return false, "", why
	}
	allow, rule = rauth(version, st, ev)
	return allow, rule, ""
}

// ---------------------------------------------------------------------------------------------
// The room as the check sees it: clean signed events, their reference IDs.

type c14Room struct {
	Version string
	Trees   []jv
	IDs     []string
	ByID    map[string]int
}

func c14LoadRoom(version string, events []vfBytes) *c14Room {
	if _, ok := vtraits[version]; !ok || version == "org.matrix.msc4014" {
		panic("c14 harness: unsupported room version " + version)
	}
	r := &c14Room{Version: version, ByID: map[string]int{}}
	for i, raw := range events {
		t, err := evTree(raw)
		if err != nil {
			panic(fmt.Sprintf("c14 harness: event %d does not parse: %v", i, err))
		}
		id := raEventID(version, t)
		r.Trees = append(r.Trees, t)
		r.IDs = append(r.IDs, id)
		if _, dup := r.ByID[id]; !dup {
			r.ByID[id] = i
		}
	}
	return r
}

func (r *c14Room) ok(i int) bool { return i >= 0 && i < len(r.Trees) }

// authIdx: room indices of the event's auth events (unknown IDs skipped).
func (r *c14Room) authIdx(ev jv) []int {
	var out []int
	for _, id := range c14AuthIDs(r.Version, ev) {
		if i, ok := r.ByID[id]; ok {
			out = append(out, i)
		}
	}
	return out
}

func c14PDU(version string, tree jv) PDU {
	p, err := raParsePDU(version, tree)
	if err != nil || p == nil {
		panic(fmt.Sprintf("c14 harness: cannot build PDU from a harness event: %v", err))
	}
	return p
}

// ---------------------------------------------------------------------------------------------
// Scripted event provider

type c14Prov struct {
	At   int    `json:"at"`   // room event index
	Mode string `json:"mode"` // event | none | error | swap
}

// c14Script: Default is event | none | error | nil (nil: no provider at all; only for the
// state-response checks). "swap" (room versions 1 and 2 only, where the ID is a field of the
// event) returns the event with its sender replaced by a non-member, validly signed.
type c14Script struct {
	Default string    `json:"default"`
	Over    []c14Prov `json:"over,omitempty"`
	// PartialWithError: when one of the requested events cannot be read, the provider still hands
	// over the ones it could read — next to the error (a database-backed provider with a bad row)
	PartialWithError bool `json:"partial_with_error,omitempty"`
}

func c14Swap(version string, tree jv) jv {
	return c14Sign(version, tree.with("sender", jstr(c14Mallory)))
}

// lookup interprets the script for one event ID: ("event", tree) | "none" | "error".
func (s c14Script) lookup(room *c14Room, id string) (jv, string) {
	idx, known := room.ByID[id]
	mode := s.Default
	if known {
		for _, o := range s.Over {
			if o.At == idx {
				mode = o.Mode
			}
		}
	}
	switch mode {
	case "error":
		return jv{}, "error"
	case "event":
		if known {
			return room.Trees[idx], "event"
		}
	case "swap":
		if known {
			if vtraits[room.Version].Format == 1 && !c14IsCreate(room.Trees[idx]) {
				return c14Swap(room.Version, room.Trees[idx]), "event"
			}
			return room.Trees[idx], "event"
		}
	}
	return jv{}, "none"
}

// c14LibProvider is the EventProvider handed to the library: a batch fails if any requested ID is
// scripted to fail, otherwise the events scripted to exist are returned.
func c14LibProvider(room *c14Room, s c14Script, asked *[]string) EventProvider {
	if s.Default == "nil" {
		return nil
	}
	return func(_ RoomVersion, ids []string) ([]PDU, error) {
		for _, id := range ids {
			*asked = append(*asked, id)
			if len(*asked) > 100000 {
				panic("c14 harness: provider asked more than 100000 times (loop?)")
			}
			if _, m := s.lookup(room, id); m == "error" {
				if s.PartialWithError {
					var part []PDU
					for _, id2 := range ids {
						if tr, m2 := s.lookup(room, id2); m2 == "event" {
							part = append(part, c14PDU(room.Version, tr))
						}
					}
					return part, fmt.Errorf("c14: scripted provider error for %s (%d other events read)", id, len(part))
				}
				return nil, fmt.Errorf("c14: scripted provider error for %s", id)
			}
		}
		var out []PDU
		for _, id := range ids {
			if tr, m := s.lookup(room, id); m == "event" {
				p := c14PDU(room.Version, tr)
				if p.EventID() != id {
					panic("c14 harness: provider event has another ID than requested")
				}
				out = append(out, p)
			}
		}
		return out, nil
	}
}

// ---------------------------------------------------------------------------------------------
// G-fault: event-level faults on the wire JSON

type c14Fault struct {
	Kind string `json:"kind"`
	At   int    `json:"at"` // room event index (or position, for list-level faults of load-and-verify)
	Arg  int    `json:"arg"`
}

// Event-level kinds (at most one per event; every occurrence of the event in a response carries it).
var c14SigFaults = []string{"sig-corrupt", "sig-wrong-key", "sig-drop"}

func c14IsEventFault(kind string) bool {
	switch kind {
	case "sig-corrupt", "sig-wrong-key", "sig-drop", "sig-extra", "wire-padded", "disallow", "other-room", "strip-state-key",
		"truncate", "malformed", "null", "long-room-id", "type-cp", "type-bytes", "big-event":
		return true
	}
	return false
}

// c14FaultDrops: by construction the faulted event must not be among the returned events.
func c14FaultDrops(kind string, isCreate bool) bool {
	switch kind {
	case "sig-corrupt", "sig-wrong-key", "sig-drop", "truncate", "malformed", "null", "type-cp", "big-event":
		return true
	case "disallow", "other-room", "long-room-id":
		return !isCreate
	}
	return false
}

const (
	c14ClassOK          = "ok"          // parses without error
	c14ClassPersistable = "persistable" // parses with a persistable size error AND an event (kept by UntrustedEvents, an error for LoadAndVerify)
	c14ClassUnparsed    = "unparsed"    // not an event: dropped while parsing
	c14ClassLongRoom    = "longroom"    // room_id over 255 bytes within 255 code points: the statement does not say whether it counts as parsed
)

var c14LongRoomIDs = []string{
	"!" + strings.Repeat("é", 130) + ":a.example",
	"!" + strings.Repeat("é", 124) + ":a.example", // 259 bytes
	"!r:" + strings.Repeat("ü", 127) + ".example", // long domain
}

// c14Mutate applies an event-level fault to a clean signed event. It returns the wire bytes, the
// resulting tree (meaningless if unparsed) and the parse class known by construction.
func c14Mutate(version string, tree jv, f c14Fault) ([]byte, jv, string) {
	arg := f.Arg
	if arg < 0 {
		arg = -arg
	}
	req := c14Required(version, tree)
	srv := req[arg%len(req)]
	sigs, _ := tree.get("signatures")
	switch f.Kind {
	case "sig-corrupt":
		ent, _ := sigs.get(srv)
		s := evStr(ent, c14KeyID)
		switch {
		case (arg/8)%3 == 1:
			s = "!!!not-base64!!!"
		case (arg/8)%3 == 2 && len(s) > 10:
			s = s[:len(s)-6] // wrong length
		case strings.HasPrefix(s, "A"):
			s = "B" + s[1:]
		case len(s) > 0:
			s = "A" + s[1:]
		default:
			s = "AAAA"
		}
		out := tree.with("signatures", sigs.with(srv, ent.with(c14KeyID, jstr(s))))
		return []byte(jplain(out)), out, c14ClassOK
	case "sig-wrong-key":
		_, evil := vfKeyFor("evil:" + srv)
		out := rsign(version, tree.with("signatures", sigs.without(srv)), srv, c14KeyID, evil)
		return []byte(jplain(out)), out, c14ClassOK
	case "sig-drop":
		var out jv
		switch (arg / 8) % 3 {
		case 0:
			out = tree.with("signatures", sigs.without(srv))
		case 1:
			out = tree.without("signatures")
		default:
			out = tree.with("signatures", sigs.with(srv, jv{K: 'o'}))
		}
		return []byte(jplain(out)), out, c14ClassOK
	case "sig-extra":
		_, k := vfKeyFor("evil:z.example")
		out := rsign(version, tree, "z.example", "ed25519:zz", k)
		return []byte(jplain(out)), out, c14ClassOK
	case "wire-padded":
		// the event as it is, sent with white space and a bulky `unsigned` (stripped on receipt): more than
		// 65 536 bytes on the wire, far less as the event it is
		txt := jplain(tree)
		return []byte(txt[:len(txt)-1] + strings.Repeat(" ", 40000) + `,"unsigned":{"pad":"` + strings.Repeat("x", 30000) + `"}}`), tree, c14ClassOK
	case "disallow":
		out := c14Swap(version, tree)
		return []byte(jplain(out)), out, c14ClassOK
	case "other-room":
		room := "!elsewhere:a.example"
		if vtraits[version].Creators {
			room = "!" + strings.Repeat("A", 43)
		}
		out := c14Sign(version, tree.with("room_id", jstr(room)))
		return []byte(jplain(out)), out, c14ClassOK
	case "strip-state-key":
		out := c14Sign(version, tree.without("state_key"))
		if vtraits[version].Creators && c14IsCreate(tree) {
			// without its state key it is no create event, and every other event needs a room_id
			return []byte(jplain(out)), out, c14ClassUnparsed
		}
		return []byte(jplain(out)), out, c14ClassOK
	case "truncate":
		raw := []byte(jplain(tree))
		return raw[:1+arg%(len(raw)-1)], jv{}, c14ClassUnparsed
	case "malformed":
		switch arg % 6 {
		case 0:
			return []byte(`[1,2]`), jv{}, c14ClassUnparsed
		case 1:
			return []byte(`"x"`), jv{}, c14ClassUnparsed
		case 2:
			return []byte(`{}`), jv{}, c14ClassUnparsed
		case 3:
			return []byte(jplain(tree.with("type", jnum(5)))), jv{}, c14ClassUnparsed
		case 4:
			return []byte(jplain(tree.with("depth", jstr("x")))), jv{}, c14ClassUnparsed
		default:
			return []byte(jplain(tree) + "}"), jv{}, c14ClassUnparsed
		}
	case "null":
		return []byte(`null`), jv{}, c14ClassUnparsed
	case "long-room-id":
		out := c14Sign(version, tree.with("room_id", jstr(c14LongRoomIDs[arg%len(c14LongRoomIDs)])))
		return []byte(jplain(out)), out, c14ClassLongRoom
	case "type-cp":
		out := c14Sign(version, tree.with("type", jstr(strings.Repeat("a", 256))))
		return []byte(jplain(out)), out, c14ClassUnparsed
	case "type-bytes":
		out := c14Sign(version, tree.with("type", jstr(strings.Repeat("é", 128))))
		return []byte(jplain(out)), out, c14ClassPersistable
	case "big-event":
		ct, _ := tree.get("content")
		out := c14Sign(version, tree.with("content", ct.with("pad", jstr(strings.Repeat("x", 66000)))))
		return []byte(jplain(out)), out, c14ClassUnparsed
	}
	panic("c14 harness: unknown event fault " + f.Kind)
}

// c14Item is one wire event of a response.
type c14Item struct {
	Raw   []byte
	Src   int    // room event index it derives from
	Kind  string // event-level fault applied, "" = none
	Class string
	Tree  jv
	ID    string
	SigOK bool
}

func c14MakeItem(room *c14Room, src int, f *c14Fault) c14Item {
	it := c14Item{Src: src, Class: c14ClassOK}
	if f == nil {
		it.Tree = room.Trees[src]
		it.Raw = []byte(jplain(it.Tree))
	} else {
		it.Kind = f.Kind
		it.Raw, it.Tree, it.Class = c14Mutate(room.Version, room.Trees[src], *f)
	}
	if it.Class != c14ClassUnparsed {
		it.ID = raEventID(room.Version, it.Tree)
		it.SigOK = c14SigOK(room.Version, it.Tree)
	} else if it.Tree.K == 'o' {
		it.ID = raEventID(room.Version, it.Tree) // well-formed JSON that is not an event (size limits): named in messages
	}
	return it
}

func (it c14Item) parsed(longParsed bool) bool {
	switch it.Class {
	case c14ClassOK, c14ClassPersistable:
		return true
	case c14ClassLongRoom:
		return longParsed
	}
	return false
}

// ---------------------------------------------------------------------------------------------
// Reference model of CheckStateResponse

type c14Verdict struct {
	Whole    string      // "" or the reason the whole response must fail
	Keep     [2][]bool   // [0] auth list, [1] state list
	Why      [2][]string // unparsed | signature | auth:<rule> | ok
	Unjudged bool        // some event met an auth state R-auth does not judge
	Verified map[string]jv
}

// c14Model: (1) events that do not parse are not events; (2) a parsed event without a state key in
// either list, or a second parsed event with the same (type, state_key) in the state list, fails the
// whole response; (3) an event is returned iff its signatures verify and R-auth allows it against those
// of its auth events that arrived with verified signatures, or else came from the provider.
func c14Model(room *c14Room, lists [2][]c14Item, script c14Script, longParsed bool) c14Verdict {
	v := c14Verdict{Verified: map[string]jv{}}
	tuples := map[string]bool{}
	for li := 0; li < 2; li++ {
		for _, it := range lists[li] {
			if !it.parsed(longParsed) {
				continue
			}
			sk, has := it.Tree.get("state_key")
			if !has || sk.K != 's' {
				if v.Whole == "" {
					v.Whole = "non-state-event"
				}
				continue
			}
			if li == 1 {
				k := grKey(evStr(it.Tree, "type"), sk.S)
				if tuples[k] && v.Whole == "" {
					v.Whole = "duplicate-state-key"
				}
				tuples[k] = true
			}
			if it.SigOK {
				v.Verified[it.ID] = it.Tree
			}
		}
	}
	for li := 0; li < 2; li++ {
		v.Keep[li] = make([]bool, len(lists[li]))
		v.Why[li] = make([]string, len(lists[li]))
		for i, it := range lists[li] {
			switch {
			case !it.parsed(longParsed):
				v.Why[li][i] = "unparsed"
				continue
			case !it.SigOK:
				v.Why[li][i] = "signature"
				continue
			}
			ok, rule, unj := c14Allowed(room.Version, it.Tree, c14Resolve(room, c14AuthIDs(room.Version, it.Tree), v.Verified, script))
			if unj != "" {
				v.Unjudged = true
			}
			if ok {
				v.Keep[li][i], v.Why[li][i] = true, "ok"
			} else {
				v.Why[li][i] = "auth:" + rule
			}
		}
	}
	return v
}

// c14Resolve: the auth events available for a check: those in `have`, else what the provider returns.
func c14Resolve(room *c14Room, ids []string, have map[string]jv, script c14Script) []jv {
	var out []jv
	for _, id := range ids {
		if t, ok := have[id]; ok {
			out = append(out, t)
			continue
		}
		if script.Default == "nil" {
			continue
		}
		if t, m := script.lookup(room, id); m == "event" {
			out = append(out, t)
		}
	}
	return out
}

func c14SortedIDs(events []PDU) []string {
	out := make([]string, 0, len(events))
	for _, e := range events {
		out = append(out, e.EventID())
	}
	sort.Strings(out)
	return out
}

func c14KeptIDs(items []c14Item, keep []bool) []string {
	out := []string{}
	for i, it := range items {
		if keep[i] {
			out = append(out, it.ID)
		}
	}
	sort.Strings(out)
	return out
}

func c14SameIDs(a, b []string) bool {
	if len(a) != len(b) {
		return false
	}
	for i := range a {
		if a[i] != b[i] {
			return false
		}
	}
	return true
}

// ---------------------------------------------------------------------------------------------
// The signed-room builder (generation side)

type c14World struct {
	r       *grRoom
	before  []map[string]int // state the event's auth events were selected from
	tainted []bool           // built on a state that contains a rejected event
	// extraAuth: events the NEXT addAt names in auth_events besides the selected ones
	extraAuth []int
}

func c14CopyState(st map[string]int) map[string]int {
	ns := make(map[string]int, len(st)+1)
	for k, v := range st {
		ns[k] = v
	}
	return ns
}

// addAt appends an event whose auth events are selected (by the specification's rule) from an
// explicitly given state; prev_events = [parent].
func (w *c14World) addAt(parent int, state map[string]int, typ, sender string, stateKey *string, content jv, tainted bool) *grEvent {
	r := w.r
	tr := vtraits[r.Version]
	p := r.Events[parent]
	e := &grEvent{Idx: len(r.Events), Type: typ, StateKey: stateKey, Sender: sender, Parent: parent, Depth: p.Depth + 1, TS: p.TS + 1}
	spec := raEv{Type: typ, Sender: sender, StateKey: stateKey, Content: content, Room: r.RoomID, Prev: []string{p.ID}, Depth: e.Depth, TS: e.TS}
	var authTrees []jv
	for _, k := range grAuthKeys(r.Version, typ, sender, stateKey, content) {
		if i, ok := state[k]; ok {
			e.Auth = append(e.Auth, i)
			authTrees = append(authTrees, r.Events[i].Tree)
			if !(tr.Creators && k == grKey("m.room.create", "")) {
				spec.Auth = append(spec.Auth, r.Events[i].ID)
			}
		}
	}
	for _, i := range w.extraAuth {
		e.Auth = append(e.Auth, i)
		authTrees = append(authTrees, r.Events[i].Tree)
		spec.Auth = append(spec.Auth, r.Events[i].ID)
	}
	w.extraAuth = nil
	spec.ID = fmt.Sprintf("$x%d:%s", e.Idx, c14Domain(sender))
	e.Tree = raJSON(r.Version, spec)
	e.ID = raEventID(r.Version, e.Tree)
	allow, _, _ := c14Allowed(r.Version, e.Tree, authTrees)
	e.Rejected = !allow
	e.State = state
	if !e.Rejected && stateKey != nil {
		ns := c14CopyState(state)
		ns[grKey(typ, *stateKey)] = e.Idx
		e.State = ns
	}
	r.Events = append(r.Events, e)
	r.byID[e.ID] = e.Idx
	w.before = append(w.before, state)
	w.tainted = append(w.tainted, tainted)
	return e
}

// c14GenWorld draws a G-room history and grows a tainted branch on it.
func c14GenWorld(t *rapid.T, minEvents, maxEvents int) *c14World {
	version := rapid.SampledFrom(c14Versions).Draw(t, "version")
	r := grGen(t, version, minEvents, maxEvents)
	w := &c14World{r: r}
	for _, e := range r.Events {
		if e.Parent >= 0 {
			w.before = append(w.before, r.Events[e.Parent].State)
		} else {
			w.before = append(w.before, map[string]int{})
		}
		w.tainted = append(w.tainted, false)
	}
	if c14Chance(t, "taint", 80) {
		w.taint(t)
	}
	if c14Chance(t, "citeNonState", 15) {
		w.citeNonState(t)
	}
	return w
}

// citeNonState: a joined user's membership event (a profile change) that names a message event of
// the room among its auth events, followed by an event of that user built on the state "as if it had
// been accepted". Only state events can be auth events, so the first is not allowed by its auth
// events and the second has a disallowed event in its chain.
func (w *c14World) citeNonState(t *rapid.T) {
	r := w.r
	at := rapid.IntRange(1, len(r.Events)-1).Draw(t, "citeAt")
	st := r.Events[at].State
	var joined []string
	for _, u := range grUsers {
		if r.memOf(st, u) == "join" {
			joined = append(joined, u)
		}
	}
	if len(joined) == 0 {
		return
	}
	author := rapid.SampledFrom(joined).Draw(t, "citedAuthor")
	msg := w.addAt(at, st, "m.room.message", author, nil, jobj("msgtype", jstr("m.text"), "body", jstr("not an auth event")), false)
	if msg.Rejected {
		return
	}
	u := rapid.SampledFrom(joined).Draw(t, "citeUser")
	w.extraAuth = []int{msg.Idx}
	e := w.addAt(msg.Idx, st, "m.room.member", u, raSK(u), jobj("membership", jstr("join"), "displayname", jstr("cites a message")), true)
	st2 := c14CopyState(st)
	st2[grKey("m.room.member", u)] = e.Idx
	if c14Chance(t, "citeChild", 70) {
		w.addAt(e.Idx, st2, "org.example.state", u, raSK(u), jobj("v", jstr("after")), true)
	}
}

// taint picks (or manufactures) a rejected state event R and builds 1-3 events on top of the state
// "as if R had been accepted": their auth events name R (or one another).
func (w *c14World) taint(t *rapid.T) {
	r := w.r
	var cands []int
	for _, e := range r.Events {
		if e.Rejected && e.StateKey != nil && (e.Type == "m.room.member" || e.Type == "m.room.power_levels" || e.Type == "m.room.join_rules") {
			cands = append(cands, e.Idx)
		}
	}
	if len(cands) == 0 || c14Chance(t, "manufacture", 33) {
		// manufacture: a join that the state at some point refuses, or a self-promotion
		at := rapid.IntRange(1, len(r.Events)-1).Draw(t, "taintAt")
		st := r.Events[at].State
		u := rapid.SampledFrom(grUsers[1:]).Draw(t, "taintUser")
		var e *grEvent
		if r.memOf(st, u) != "join" {
			e = w.addAt(at, st, "m.room.member", u, raSK(u), jobj("membership", jstr("join")), false)
		} else {
			users := jv{K: 'o'}
			if !vtraits[r.Version].Creators {
				users = users.with(grUsers[0], jnum(100))
			}
			e = w.addAt(at, st, "m.room.power_levels", u, raSK(""), jobj("users", users.with(u, jnum(100)), "state_default", jnum(0), "events_default", jnum(0)), false)
		}
		if e.Rejected {
			cands = append(cands, e.Idx)
		}
	}
	if len(cands) == 0 {
		return
	}
	R := r.Events[rapid.SampledFrom(cands).Draw(t, "taintR")]
	st := c14CopyState(w.before[R.Idx])
	st[grKey(R.Type, *R.StateKey)] = R.Idx
	actor := R.Sender
	if R.Type == "m.room.member" {
		actor = *R.StateKey
	}
	parent := R.Idx
	n := rapid.IntRange(1, 3).Draw(t, "taintN")
	invited := ""
	for k := 0; k < n; k++ {
		target := rapid.SampledFrom(grUsers[1:]).Draw(t, "taintTarget")
		var typ string
		var sk *string
		var content jv
		who := actor
		action := rapid.SampledFrom([]int{0, 0, 1, 2, 2, 2, 3, 4}).Draw(t, "taintAction")
		if invited != "" && c14Chance(t, "taintAccept", 60) {
			action, target = 3, invited
		}
		invited = ""
		switch action {
		case 0:
			typ, sk, content = "m.room.topic", raSK(""), jobj("topic", jstr(fmt.Sprint("tainted", k)))
		case 1:
			typ, sk, content = "org.example.state", raSK(actor), jobj("v", jnum(int64(k)))
		case 2:
			typ, sk, content = "m.room.member", raSK(target), jobj("membership", jstr("invite"))
			invited = target
		case 3:
			who = target
			typ, sk, content = "m.room.member", raSK(target), jobj("membership", jstr("join"))
		default:
			typ, sk, content = "m.room.member", raSK(target), jobj("membership", jstr("ban"))
		}
		e := w.addAt(parent, st, typ, who, sk, content, true)
		st = c14CopyState(st)
		st[grKey(typ, *sk)] = e.Idx // applied whether or not it is allowed: deeper chains
		parent = e.Idx
	}
}

// signedEvents: the wire form of every event (content hash + required signatures); the IDs are
// unaffected by signing.
func (w *c14World) signedEvents() []vfBytes {
	var out []vfBytes
	for _, e := range w.r.Events {
		s := c14Sign(w.r.Version, e.Tree)
		if raEventID(w.r.Version, s) != e.ID {
			panic("c14 harness: signing changed an event ID")
		}
		out = append(out, vfBytes(jplain(s)))
	}
	return out
}

func (w *c14World) rejected() []int {
	var out []int
	for _, e := range w.r.Events {
		if e.Rejected {
			out = append(out, e.Idx)
		}
	}
	return out
}

// authClosure: the given events' auth events, recursively (sorted indices; the seeds themselves only
// if something names them).
func (w *c14World) authClosure(seeds []int) []int {
	seen := map[int]bool{}
	var stack []int
	for _, s := range seeds {
		stack = append(stack, w.r.Events[s].Auth...)
	}
	for len(stack) > 0 {
		i := stack[len(stack)-1]
		stack = stack[:len(stack)-1]
		if seen[i] {
			continue
		}
		seen[i] = true
		stack = append(stack, w.r.Events[i].Auth...)
	}
	out := make([]int, 0, len(seen))
	for i := range seen {
		out = append(out, i)
	}
	sort.Ints(out)
	return out
}

func c14SortedVals(st map[string]int) []int {
	out := make([]int, 0, len(st))
	for _, i := range st {
		out = append(out, i)
	}
	sort.Ints(out)
	return out
}

func c14Has(l []int, x int) bool {
	for _, y := range l {
		if y == x {
			return true
		}
	}
	return false
}

// c14Chance is true with (about) the given probability. rapid's IntRange and SampledFrom favour small
// values / early entries, so the probability is assembled from fair coin flips.
func c14Chance(t *rapid.T, label string, percent int) bool {
	n := 0
	for i := 0; i < 5; i++ {
		n <<= 1
		if rapid.Bool().Draw(t, label) {
			n |= 1
		}
	}
	return n*100/32 < percent
}

func c14Shuffle(t *rapid.T, l []int, label string) []int {
	if len(l) < 2 || !rapid.Bool().Draw(t, label+"Shuffle") {
		return l
	}
	perm := rapid.Permutation(l).Draw(t, label+"Perm")
	return perm
}
