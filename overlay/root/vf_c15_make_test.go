//go:build verif

package gomatrixserverlib

import (
	"context"
	"fmt"
	"strings"

	"github.com/matrix-org/gomatrixserverlib/spec"
	"pgregory.net/rapid"
)

// C15/make-join and C15/make-leave: HandleMakeJoin / HandleMakeLeave return a template only if
// every guard the statement names holds; when all hold (and nothing else is wrong) they return one.
//
// Guards, computed from the Case alone:
//   version    (make_join only) the room version is in the remote's list
//   origin     the user's server name equals the request origin
//   in-room    the local server is in the room
//   restricted (make_join only) when the room's join rule is restricted / knock_restricted, the room
//              version knows restricted joins and no invite is pending: some allow entry names a room
//              the local server is resident in, the joining user is joined to it, and one of the
//              joined users the querier lists is entitled to invite (level >= invite, or a v12
//              creator); the template must then name such a user
//   auth       the event the template builder builds from the proto event passes R-auth on the
//              builder's state

type c15AllowedRoom struct {
	Resident   bool     `json:"resident"`
	Err        bool     `json:"err,omitempty"`
	Nil        bool     `json:"nil,omitempty"`
	UserJoined bool     `json:"user_joined"`
	Joined     []string `json:"joined"` // user IDs of the joined users listed; "#bogus" = a non-member event
}

type c15MakeCase struct {
	Leave          bool                      `json:"leave"`
	Version        string                    `json:"version"`
	RemoteVersions []string                  `json:"remote_versions"`
	User           string                    `json:"user"`
	Origin         string                    `json:"origin"`
	LocalInRoom    bool                      `json:"local_in_room"`
	Room           c15Room                   `json:"room"`
	Builder        string                    `json:"builder"` // ok | err | nil-event | nil-state | wrong-type
	JRErr          bool                      `json:"jr_err,omitempty"`
	PLErr          bool                      `json:"pl_err,omitempty"`
	CreateMode     string                    `json:"create_mode,omitempty"` // "" state | err | nil
	Pending        bool                      `json:"pending"`
	PendingErr     bool                      `json:"pending_err,omitempty"`
	Rooms          map[string]c15AllowedRoom `json:"rooms,omitempty"`
	// SenderQuerierErr: the UserIDQuerier fails for the requesting user's sender ID (a lookup failure),
	// and answers for everybody else; no template can be demanded then, and none may be handed out
	// for an event the rules refuse
	SenderQuerierErr bool `json:"sender_querier_err,omitempty"`
	// StaleAuth: the template's auth_events were selected a moment before the state that is handed
	// back with it ("create-only": they name the create event alone; "none": nothing). The template
	// must be judged by that state, whatever its own list says.
	StaleAuth string `json:"stale_auth,omitempty"`
}

var c15AllowPool = []string{"!space1:local.example", "!space2:other.example", "!space3:local.example"}

func c15ValidRoomIDRef(id string) bool {
	if len(id) < 2 || id[0] != '!' {
		return false
	}
	if i := strings.IndexByte(id, ':'); i >= 0 {
		return i > 1 && i < len(id)-1
	}
	if len(id) != 44 {
		return false
	}
	for _, c := range id[1:] {
		if !(c >= 'a' && c <= 'z' || c >= 'A' && c <= 'Z' || c >= '0' && c <= '9' || c == '-' || c == '_') {
			return false
		}
	}
	return true
}

// memberTree builds the membership event a template asks for on top of the room state.
func c15MemberTree(b *c15Builder, typ, sender string, stateKey *string, room string, content jv) jv {
	return c15MemberTreeAuth(b, typ, sender, stateKey, room, content, nil)
}

// c15MemberTreeAuth: as c15MemberTree with the auth events given (nil = selected from the state).
func c15MemberTreeAuth(b *c15Builder, typ, sender string, stateKey *string, room string, content jv, auth []string) jv {
	cp := *b
	e := raEv{Type: typ, Sender: sender, StateKey: stateKey, Content: content, Auth: auth}
	ev := cp.tree(e)
	if room != b.RoomID {
		ev = ev.with("room_id", jstr(room)).without("hashes")
		ev = ev.with("hashes", jobj("sha256", jstr(rcontentHash(ev))))
	}
	return ev
}

type c15BuilderRec struct {
	Calls int
	Tree  jv
	Note  string
}

func c15TemplateBuilder(c c15MakeCase, b *c15Builder, rec *c15BuilderRec) func(*ProtoEvent) (PDU, []PDU, error) {
	return func(p *ProtoEvent) (PDU, []PDU, error) {
		rec.Calls++
		if c.Builder == "err" {
			return nil, nil, spec.InternalServerError{Err: "c15 scripted builder error"}
		}
		content, fl, err := jparse(p.Content)
		if err != nil || content.K != 'o' || fl.DupKeys {
			rec.Note = "proto content is not a JSON object"
			return nil, nil, fmt.Errorf("c15: proto content is not a JSON object")
		}
		tree := c15MemberTree(b, p.Type, p.SenderID, p.StateKey, p.RoomID, content)
		switch c.StaleAuth {
		case "create-only":
			tree = c15MemberTreeAuth(b, p.Type, p.SenderID, p.StateKey, p.RoomID, content, []string{b.CreateID})
		case "none":
			tree = c15MemberTreeAuth(b, p.Type, p.SenderID, p.StateKey, p.RoomID, content, []string{})
		}
		rec.Tree = tree
		pdu, err := raParsePDU(c.Version, tree)
		if err != nil {
			rec.Note = "built event does not parse: " + err.Error()
			return nil, nil, err
		}
		state, err := c15ParseAll(c.Version, b.stateEvents())
		if err != nil {
			rec.Note = "state does not parse: " + err.Error()
			return nil, nil, err
		}
		switch c.Builder {
		case "nil-event":
			return nil, state, nil
		case "nil-state":
			return pdu, nil, nil
		case "wrong-type":
			other, err := raParsePDU(c.Version, c15MemberTree(b, "m.room.topic", p.SenderID, raSK(""), p.RoomID, jobj("topic", jstr("x"))))
			if err != nil {
				return nil, nil, err
			}
			return other, state, nil
		}
		return pdu, state, nil
	}
}

type c15RestrictedQuerier struct {
	c     c15MakeCase
	b     *c15Builder
	calls []string
}

func (q *c15RestrictedQuerier) CurrentStateEvent(ctx context.Context, roomID spec.RoomID, eventType string, stateKey string) (PDU, error) {
	q.calls = append(q.calls, "state:"+eventType)
	switch {
	case eventType == "m.room.join_rules" && q.c.JRErr, eventType == "m.room.power_levels" && q.c.PLErr, eventType == "m.room.create" && q.c.CreateMode == "err":
		return nil, fmt.Errorf("c15 scripted querier error")
	case eventType == "m.room.create" && q.c.CreateMode == "nil":
		return nil, nil
	}
	if roomID.String() != q.b.RoomID {
		return nil, nil
	}
	i, ok := q.b.State[c15Tuple(eventType, stateKey)]
	if !ok {
		return nil, nil
	}
	return raParsePDU(q.c.Version, q.b.Events[i])
}

func (q *c15RestrictedQuerier) InvitePending(ctx context.Context, roomID spec.RoomID, senderID spec.SenderID) (bool, error) {
	q.calls = append(q.calls, "pending")
	if q.c.PendingErr {
		return false, fmt.Errorf("c15 scripted querier error")
	}
	return q.c.Pending, nil
}

func (q *c15RestrictedQuerier) RestrictedRoomJoinInfo(ctx context.Context, roomID spec.RoomID, senderID spec.SenderID, localServerName spec.ServerName) (*RestrictedRoomJoinInfo, error) {
	q.calls = append(q.calls, "info:"+roomID.String())
	info, ok := q.c.Rooms[roomID.String()]
	if !ok || info.Nil {
		return nil, nil
	}
	if info.Err {
		return nil, fmt.Errorf("c15 scripted querier error")
	}
	out := &RestrictedRoomJoinInfo{LocalServerInRoom: info.Resident, UserJoinedToRoom: info.UserJoined}
	for i, u := range info.Joined {
		e := raEv{Type: "m.room.member", Sender: u, Room: roomID.String(), StateKey: raSK(u), Content: jobj("membership", jstr("join")),
			Depth: int64(10 + i), TS: c15TS, ID: fmt.Sprintf("$c15allowed%d:%s", i, c15Local)}
		if u == "#bogus" {
			e = raEv{Type: "m.room.topic", Sender: c15Lara, Room: roomID.String(), StateKey: raSK(""), Content: jobj("topic", jstr("x")),
				Depth: int64(10 + i), TS: c15TS, ID: fmt.Sprintf("$c15allowed%d:%s", i, c15Local)}
		}
		p, err := raParsePDU(q.c.Version, raJSON(q.c.Version, e))
		if err != nil {
			return nil, err
		}
		out.JoinedUsers = append(out.JoinedUsers, p)
	}
	return out, nil
}

// c15Authorisers lists, in the order the allow list and the querier give them, the users that may
// authorise the restricted join.
func c15Authorisers(c c15MakeCase, st raState) []string {
	var out []string
	for _, a := range c.Room.Allow {
		if a.Type != "m.room_membership" || !c15ValidRoomIDRef(a.Room) {
			continue
		}
		info, ok := c.Rooms[a.Room]
		if !ok || info.Err || info.Nil || !info.Resident || !info.UserJoined {
			continue
		}
		for _, u := range info.Joined {
			if u == "#bogus" {
				continue
			}
			if st.pl(u) >= st.threshold("invite") && !c15In(out, u) {
				out = append(out, u)
			}
		}
	}
	return out
}

func c15MakeCheck(ctx *vfCtx, c c15MakeCase) {
	api := "make-join"
	membership := "join"
	if c.Leave {
		api, membership = "make-leave", "leave"
	}
	tr := vtraits[c.Version]
	b := c15BuildRoom(c.Room)
	st := raBuildState(c.Version, b.stateEvents())
	if why := raUnjudged(st); why != "" {
		ctx.Unjudged("generator: " + why)
		return
	}
	user, err := spec.NewUserID(c.User, true)
	if err != nil {
		ctx.Unjudged("generator: user ID does not parse")
		return
	}
	roomID, err := spec.NewRoomID(b.RoomID)
	if err != nil {
		ctx.Unjudged("generator: room ID does not parse")
		return
	}

	// ---- guards from the inputs
	gVersion := c.Leave || c15In(c.RemoteVersions, c.Version)
	gOrigin := c15Domain(c.User) == c.Origin
	gInRoom := c.LocalInRoom
	restricted := !c.Leave && tr.Restricted && (c.Room.JoinRule == "restricted" || c.Room.JoinRule == "knock_restricted")
	needAuthoriser := restricted && !c.Pending
	authorisers := c15Authorisers(c, st)
	gRestricted := !needAuthoriser || len(authorisers) > 0
	// candidate events: one per possible authoriser ("" when none is needed)
	vias := []string{""}
	if needAuthoriser {
		vias = authorisers
	}
	mkContent := func(via string) jv {
		ct := jobj("membership", jstr(membership))
		if via != "" {
			ct = ct.with("join_authorised_via_users_server", jstr(via))
		}
		return ct
	}
	allAllowed, someAllowed := len(vias) > 0, false
	for _, via := range vias {
		ok, rule := rauth(c.Version, st, c15MemberTree(b, "m.room.member", c.User, raSK(c.User), b.RoomID, mkContent(via)))
		if strings.Contains(rule, "(unjudged)") {
			ctx.Unjudged("R-auth: " + rule)
			return
		}
		allAllowed = allAllowed && ok
		someAllowed = someAllowed || ok
	}
	querierTrouble := !c.Leave && tr.Restricted && (c.JRErr || (restricted && (c.PendingErr || (needAuthoriser && (c.PLErr || !c.Room.HasPL || (tr.Creators && c.CreateMode != ""))))))
	violated := 0
	for _, g := range []bool{gVersion, gOrigin, gInRoom, gRestricted, !gRestricted || someAllowed} {
		if !g {
			violated++
		}
	}
	allGood := gVersion && gOrigin && gInRoom && gRestricted && allAllowed && c.Builder == "ok" && !querierTrouble && !c.SenderQuerierErr
	userQuerier := spec.UserIDForSender(vfUserIDForSender)
	if c.SenderQuerierErr {
		ctx.Class("sender-querier-error")
		userQuerier = func(roomID spec.RoomID, senderID spec.SenderID) (*spec.UserID, error) {
			if string(senderID) == c.User {
				return nil, fmt.Errorf("c15 scripted user lookup failure")
			}
			return vfUserIDForSender(roomID, senderID)
		}
	}

	// ---- run
	rec := &c15BuilderRec{}
	q := &c15RestrictedQuerier{c: c, b: b}
	var tmpl *ProtoEvent
	var respVersion RoomVersion
	var herr error
	if vfCatch(ctx, "C15/"+api, func() {
		if c.Leave {
			resp, err := HandleMakeLeave(HandleMakeLeaveInput{
				UserID: *user, SenderID: spec.SenderID(c.User), RoomID: *roomID, RoomVersion: RoomVersion(c.Version),
				RequestOrigin: spec.ServerName(c.Origin), LocalServerName: c15Local, LocalServerInRoom: c.LocalInRoom,
				UserIDQuerier: userQuerier, BuildEventTemplate: c15TemplateBuilder(c, b, rec),
			})
			herr = err
			if resp != nil {
				tmpl, respVersion = &resp.LeaveTemplateEvent, resp.RoomVersion
			}
			return
		}
		var remote []RoomVersion
		for _, v := range c.RemoteVersions {
			remote = append(remote, RoomVersion(v))
		}
		resp, err := HandleMakeJoin(HandleMakeJoinInput{
			Context: c15Quiet(), UserID: *user, SenderID: spec.SenderID(c.User), RoomID: *roomID, RoomVersion: RoomVersion(c.Version),
			RemoteVersions: remote, RequestOrigin: spec.ServerName(c.Origin), LocalServerName: c15Local, LocalServerInRoom: c.LocalInRoom,
			RoomQuerier: q, UserIDQuerier: userQuerier, BuildEventTemplate: c15TemplateBuilder(c, b, rec),
		})
		herr = err
		if resp != nil {
			tmpl, respVersion = &resp.JoinTemplateEvent, resp.RoomVersion
		}
	}) {
		return
	}
	returned := tmpl != nil && herr == nil
	if rec.Note != "" {
		ctx.Class("builder-note")
		ctx.Unjudged("generator: " + rec.Note)
		return
	}

	// ---- classes
	if c.StaleAuth != "" {
		ctx.Class("template-auth-events-stale/" + c.StaleAuth)
	}
	switch {
	case allGood:
		ctx.Class("all-guards-hold")
		if needAuthoriser {
			ctx.Class("all-guards-hold/restricted-join-authorised")
		} else if restricted {
			ctx.Class("all-guards-hold/restricted-join-invite-pending")
		}
	case violated == 0:
		ctx.Class("guards-hold/other-trouble(builder=" + c.Builder + fmt.Sprintf(",querier=%v,some-candidate-disallowed=%v)", querierTrouble, !allAllowed))
	default:
		if !gVersion {
			ctx.Class("violated/version")
		}
		if !gOrigin {
			ctx.Class("violated/origin")
		}
		if !gInRoom {
			ctx.Class("violated/in-room")
		}
		if !gRestricted {
			ctx.Class("violated/restricted-no-authoriser")
		}
		if gRestricted && !someAllowed {
			ctx.Class("violated/auth-rules")
		}
	}
	if restricted {
		ctx.Class(fmt.Sprintf("restricted/pending=%v/authorisers=%d", c.Pending, len(authorisers)))
	}
	if returned {
		ctx.Class("outcome/template")
	} else {
		ctx.Class("outcome/error")
	}
	if violated <= 1 {
		ctx.NonTrivial()
	}

	// ---- soundness
	if returned {
		fail := func(guard, format string, a ...any) {
			ctx.Fail("C15/"+api+"/template-despite/"+guard, "%s returned a template although %s; case=%+v", api, fmt.Sprintf(format, a...), c)
		}
		if !gVersion {
			fail("version-unsupported", "room version %q is not among the remote's versions %v", c.Version, c.RemoteVersions)
		}
		if !gOrigin {
			fail("user-not-of-origin", "user %s does not belong to the requesting server %s", c.User, c.Origin)
		}
		if !gInRoom {
			fail("local-server-not-in-room", "the local server is not in the room")
		}
		// the template itself
		var tc jv
		if parsed, _, err := jparse(tmpl.Content); err == nil {
			tc = parsed
		}
		tm, _ := raStr(tc, "membership")
		via, _ := raStr(tc, "join_authorised_via_users_server")
		if tmpl.Type != "m.room.member" || tm != membership || tmpl.SenderID != c.User || tmpl.StateKey == nil || *tmpl.StateKey != c.User || tmpl.RoomID != b.RoomID {
			ctx.Fail("C15/"+api+"/template-not-the-requested-membership", "template is not a %s of %s in %s: type=%q sender=%q state_key=%v room=%q content=%s",
				membership, c.User, b.RoomID, tmpl.Type, tmpl.SenderID, tmpl.StateKey, tmpl.RoomID, tmpl.Content)
		}
		if string(respVersion) != c.Version {
			ctx.Fail("C15/"+api+"/response-room-version", "response names room version %q, the room has %q", respVersion, c.Version)
		}
		if needAuthoriser {
			switch {
			case !gRestricted:
				fail("restricted-no-authoriser", "the join rule is %s, no invite is pending and no listed local user can authorise the join (authoriser in template: %q)", c.Room.JoinRule, via)
			case !c15In(authorisers, via):
				ctx.Fail("C15/make-join/authoriser-not-entitled", "template names authoriser %q; users entitled to authorise: %v; case=%+v", via, authorisers, c)
			case c15Domain(via) != c15Local:
				ctx.Class("authoriser-not-local-from-querier")
				ctx.Unjudged("the querier listed a non-local joined user and the handler chose it (querier contract: joined users are local)")
			}
		}
		// the event that was built from the proto must pass the reference rules
		if rec.Calls == 0 || rec.Tree.K != 'o' {
			ctx.Fail("C15/"+api+"/template-without-auth-check", "a template was returned but the template builder was never asked for an event")
		} else if ok, rule := rauth(c.Version, st, rec.Tree); !ok {
			fail("event-fails-auth-rules", "the built event is refused by the auth rules (%s): %s", rule, jplain(rec.Tree))
		}
	}
	// ---- completeness when every guard holds
	if allGood && !returned {
		ctx.Fail("C15/"+api+"/refused-although-all-guards-hold", "%s refused (%v) although every guard holds; case=%+v", api, herr, c)
	}
}

func c15MakeGen(leave bool) func(t *rapid.T) c15MakeCase {
	return func(t *rapid.T) c15MakeCase {
		c := c15MakeCase{Leave: leave}
		c.Version = rapid.SampledFrom(c15Versions).Draw(t, "version")
		wantRestricted := !leave && rapid.IntRange(0, 9).Draw(t, "wantRestricted") < 4
		if wantRestricted && rapid.IntRange(0, 4).Draw(t, "restrictedVersion") > 0 {
			c.Version = rapid.SampledFrom([]string{"8", "9", "10", "11", "12", "org.matrix.msc3787", "org.matrix.hydra.11"}).Draw(t, "versionR")
		}
		tr := vtraits[c.Version]
		c.User = c15Rita
		c.Origin = c15Remote
		c.LocalInRoom = true
		c.Builder = "ok"
		c.RemoteVersions = []string{c.Version}
		c.SenderQuerierErr = rapid.IntRange(0, 5).Draw(t, "senderQuerierErr") == 0
		if rapid.IntRange(0, 3).Draw(t, "staleAuth") == 0 {
			c.StaleAuth = rapid.SampledFrom([]string{"create-only", "none"}).Draw(t, "staleAuthKind")
		}
		if rapid.Bool().Draw(t, "moreVersions") {
			c.RemoteVersions = append([]string{"1", "10"}, c.Version, "org.example.unknown")
		}
		c.Room = c15GenRoom(t, c.Version, c15Rita)
		if wantRestricted {
			c.Room.JoinRule = rapid.SampledFrom([]string{"restricted", "restricted", "knock_restricted"}).Draw(t, "joinRuleR")
		} else if !leave && rapid.IntRange(0, 2).Draw(t, "mostlyPublic") > 0 {
			c.Room.JoinRule = "public"
			if rapid.IntRange(0, 3).Draw(t, "joinerFresh0") > 0 {
				c.Room.Members[c15Rita] = rapid.SampledFrom([]string{"-", "leave", "invite"}).Draw(t, "joinerMember0")
			}
		}
		if leave {
			c.Room.Members[c15Rita] = rapid.SampledFrom([]string{"join", "join", "invite", "leave", "knock", "ban", "-"}).Draw(t, "leaverMember")
		}
		// restricted-join script
		if !leave && (c.Room.JoinRule == "restricted" || c.Room.JoinRule == "knock_restricted") {
			c.Rooms = map[string]c15AllowedRoom{}
			n := rapid.IntRange(0, 3).Draw(t, "nAllow")
			for i := 0; i < n; i++ {
				a := c15Allow{Type: "m.room_membership", Room: rapid.SampledFrom(c15AllowPool).Draw(t, "allowRoom")}
				switch rapid.IntRange(0, 9).Draw(t, "allowOdd") {
				case 0:
					a.Type = "org.example.other_rule"
				case 1:
					a.Room = rapid.SampledFrom([]string{"", "space1:local.example", "!nodomain"}).Draw(t, "badRoom")
				}
				c.Room.Allow = append(c.Room.Allow, a)
			}
			if c.Room.Allow == nil && rapid.Bool().Draw(t, "emptyAllow") {
				c.Room.Allow = []c15Allow{}
			}
			good := rapid.IntRange(0, 3).Draw(t, "goodScript") > 0
			if good && len(c.Room.Allow) == 0 {
				c.Room.Allow = append(c.Room.Allow, c15Allow{Type: "m.room_membership", Room: rapid.SampledFrom(c15AllowPool).Draw(t, "allowRoomG")})
			}
			for _, room := range c15AllowPool {
				if rapid.IntRange(0, 5).Draw(t, "roomUnknown") == 0 {
					continue
				}
				info := c15AllowedRoom{Resident: true, UserJoined: true}
				if !good || rapid.IntRange(0, 3).Draw(t, "roomOdd") == 0 {
					info.Resident = rapid.IntRange(0, 3).Draw(t, "resident") > 0
					info.UserJoined = rapid.IntRange(0, 3).Draw(t, "userJoined") > 0
					switch rapid.IntRange(0, 9).Draw(t, "infoOdd") {
					case 0:
						info.Err = true
					case 1:
						info.Nil = true
					}
				}
				nj := rapid.IntRange(0, 3).Draw(t, "nJoined")
				if good && nj == 0 {
					nj = 1
				}
				for j := 0; j < nj; j++ {
					info.Joined = append(info.Joined, rapid.SampledFrom([]string{c15Lara, c15Lara, c15Leo, c15Leo, c15Creator, c15Otto, "#bogus"}).Draw(t, "joinedUser"))
				}
				c.Rooms[room] = info
			}
			if good {
				// make the authoriser usable by the auth rules as well
				c.Room.HasPL = true
				for _, u := range []string{c15Lara, c15Leo} {
					if rapid.IntRange(0, 3).Draw(t, "authoriserJoined") > 0 {
						c.Room.Members[u] = "join"
					}
					if rapid.IntRange(0, 3).Draw(t, "authoriserLevel") > 0 {
						c.Room.Levels[u] = 100
					}
				}
				if rapid.IntRange(0, 2).Draw(t, "joinerFresh") > 0 {
					c.Room.Members[c15Rita] = "-"
				}
			}
			c.Pending = rapid.IntRange(0, 5).Draw(t, "pending") == 0
			if c.Pending && rapid.IntRange(0, 3).Draw(t, "pendingConsistent") > 0 {
				c.Room.Members[c15Rita] = "invite"
			}
		}
		// faults: mostly none or one
		nf := rapid.SampledFrom([]int{0, 0, 1, 1, 1, 2}).Draw(t, "nFaults")
		for i := 0; i < nf; i++ {
			switch rapid.SampledFrom([]string{"version", "origin", "in-room", "builder", "querier", "user-local", "version-empty"}).Draw(t, "fault") {
			case "version":
				c.RemoteVersions = []string{"1", "org.example.unknown"}
				if c.Version == "1" {
					c.RemoteVersions = []string{"2", c.Version + " "}
				}
			case "version-empty":
				c.RemoteVersions = nil
			case "origin":
				c.Origin = rapid.SampledFrom([]string{c15Other, c15Local, "remote.example:8448", "sub.remote.example"}).Draw(t, "badOrigin")
			case "user-local":
				c.User = c15Otto // a user of a third server asked for by remote.example
			case "in-room":
				c.LocalInRoom = false
			case "builder":
				c.Builder = rapid.SampledFrom([]string{"err", "nil-event", "nil-state", "wrong-type"}).Draw(t, "builder")
			case "querier":
				switch rapid.IntRange(0, 3).Draw(t, "querierFault") {
				case 0:
					c.JRErr = true
				case 1:
					c.PLErr = true
				case 2:
					c.PendingErr = true
				default:
					if tr.Creators {
						c.CreateMode = rapid.SampledFrom([]string{"err", "nil"}).Draw(t, "createMode")
					} else {
						c.PLErr = true
					}
				}
			}
		}
		return c
	}
}

func init() {
	vfRapid("C15/make-join",
		"non-trivial = at most one of the guards (version supported, user of origin, local server in room, restricted join authorisable, event passes auth rules) is violated; distinct = distinct Case JSON",
		2000, 60000, 8, c15MakeGen(false), c15MakeCheck)
	vfRapid("C15/make-leave",
		"non-trivial = at most one of the guards (user of origin, local server in room, event passes auth rules) is violated; distinct = distinct Case JSON",
		600, 15000, 4, c15MakeGen(true), c15MakeCheck)
}
