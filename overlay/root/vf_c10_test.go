//go:build verif

package gomatrixserverlib

import (
	"fmt"
	"strings"

	"pgregory.net/rapid"
)

// C10 — state resolution returns the state the room version's algorithm defines (R-res oracle).

func c10Algo(version string) string {
	switch vtraits[version].StateRes {
	case 1:
		return "v1"
	case 2:
		return "v2"
	}
	return "v2.1"
}

func c10AuthFor(version string, p *grParsed) []PDU {
	if vtraits[version].StateRes == 1 {
		return rrUnconflictedAuthV1(p.Sets)
	}
	if !p.AuthChainsOnly {
		return p.PDUs
	}
	cited := map[string]bool{}
	for _, e := range p.PDUs {
		for _, a := range e.AuthEventIDs() {
			cited[a] = true
		}
	}
	var out []PDU
	for _, e := range p.PDUs {
		if cited[e.EventID()] {
			out = append(out, e)
		}
	}
	return out
}

func c10Check(ctx *vfCtx, c grCase) {
	p, err := grParse(c)
	if err != nil {
		ctx.Unjudged("generator: " + err.Error())
		return
	}
	algo := c10Algo(c.Version)
	ctx.Class("algo/" + algo)
	ctx.Class(fmt.Sprintf("sets/%d", len(p.Sets)))
	if p.AuthChainsOnly {
		ctx.Class("auth-events/the-auth-chains-proper")
	} else {
		ctx.Class("auth-events/every-event-of-the-room")
	}
	for _, e := range p.PDUs {
		if len(e.PrevEventIDs()) >= 2 {
			ctx.Class("history-with-merge-event")
			break
		}
	}
	auth := c10AuthFor(c.Version, p)
	isRejected := func(id string) bool { return p.Rejected[id] }
	var got []PDU
	if vfCatch(ctx, "C10/"+algo, func() {
		got, err = ResolveConflictsNew(RoomVersion(c.Version), p.Sets, auth, vfUserIDForSender, isRejected)
	}) {
		return
	}
	if err != nil {
		ctx.Fail("C10/"+algo+"/error", "ResolveConflictsNew failed: %v", err)
		return
	}
	want, st := rres(c.Version, p.Sets, auth, p.Rejected)
	// non-trivial: a conflicted key and (conflicted power event | non-empty auth difference | rejected event supplied)
	if len(st.Conflicted) > 0 || algo == "v1" {
		hasPower := false
		for _, id := range st.Conflicted {
			if e := p.ByID[id]; e != nil && rrIsPower(e) {
				hasPower = true
			}
		}
		if hasPower {
			ctx.Class("conflicted-power-event")
		}
		if len(st.AuthDiff) > 0 {
			ctx.Class("auth-difference")
		}
		if len(p.Rejected) > 0 {
			ctx.Class("rejected-events")
		}
		if hasPower || len(st.AuthDiff) > 0 || len(p.Rejected) > 0 {
			ctx.NonTrivial()
		}
		if algo == "v1" {
			// v1: conflicted = keys with >= 2 distinct events
			seen := map[StateKeyTuple]map[string]bool{}
			for _, s := range p.Sets {
				for _, e := range s {
					if k, ok := rrKeyOf(e); ok {
						if seen[k] == nil {
							seen[k] = map[string]bool{}
						}
						seen[k][e.EventID()] = true
					}
				}
			}
			for _, ids := range seen {
				if len(ids) > 1 {
					ctx.NonTrivial()
					ctx.Class("v1-conflict")
					break
				}
			}
		}
	} else {
		ctx.Class("no-conflict")
	}
	g, w := grIDs(got), grIDs(want)
	if strings.Join(g, ",") != strings.Join(w, ",") {
		// describe the difference by (type, state_key)
		diff := c10Diff(p, g, w)
		ctx.Fail("C10/"+algo+"/result-differs", "resolved state differs from the reference (%s): %s\nstages: conflicted=%d authdiff=%d subgraph=%d power=%v others=%v", algo, diff, len(st.Conflicted), len(st.AuthDiff), len(st.Subgraph), c10Describe(p, st.Power), c10Describe(p, st.Others))
	}
}

func c10Describe(p *grParsed, ids []string) []string {
	var out []string
	for _, id := range ids {
		e := p.ByID[id]
		if e == nil {
			out = append(out, id)
			continue
		}
		sk := "<nil>"
		if e.StateKey() != nil {
			sk = *e.StateKey()
		}
		out = append(out, fmt.Sprintf("%s(%s|%s by %s ts=%d)", id[:8], e.Type(), sk, e.SenderID(), e.OriginServerTS()))
	}
	return out
}

func c10Diff(p *grParsed, got, want []string) string {
	gm, wm := map[string]bool{}, map[string]bool{}
	for _, id := range got {
		gm[id] = true
	}
	for _, id := range want {
		wm[id] = true
	}
	var only []string
	for _, id := range got {
		if !wm[id] {
			only = append(only, "library-only "+strings.Join(c10Describe(p, []string{id}), ""))
		}
	}
	for _, id := range want {
		if !gm[id] {
			only = append(only, "reference-only "+strings.Join(c10Describe(p, []string{id}), ""))
		}
	}
	return strings.Join(only, "; ")
}

var c10V2Versions = []string{"2", "3", "4", "5", "6", "7", "8", "9", "10", "11", "org.matrix.msc3667", "org.matrix.msc3787"}

// c10Size: now and then a long history (more than 64 / 128 events to order, more than 64 conflicted)
func c10Size(t *rapid.T, max int) (int, int) {
	if rapid.IntRange(0, 29).Draw(t, "longHistory") == 0 {
		return 70, 150
	}
	return 8, max
}

func c10GenV1(t *rapid.T) grCase { lo, hi := c10Size(t, 30); return grGenCase(t, "1", lo, hi) }
func c10GenV2(t *rapid.T) grCase {
	lo, hi := c10Size(t, 36)
	return grGenCase(t, rapid.SampledFrom(c10V2Versions).Draw(t, "version"), lo, hi)
}
func c10GenV21(t *rapid.T) grCase {
	lo, hi := c10Size(t, 36)
	return grGenCase(t, rapid.SampledFrom([]string{"12", "org.matrix.hydra.11"}).Draw(t, "version"), lo, hi)
}

func init() {
	rule := "non-trivial = at least one conflicted key AND (a conflicted power event, or a non-empty auth difference, or a rejected event among the supplied events); v1: at least one key with two distinct events. distinct = distinct Case JSON"
	vfRapid("C10/v1", rule, 1500, 30000, 16, c10GenV1, c10Check)
	vfRapid("C10/v2", rule, 2500, 60000, 16, c10GenV2, c10Check)
	vfRapid("C10/v2.1", rule, 2500, 60000, 16, c10GenV21, c10Check)
}
