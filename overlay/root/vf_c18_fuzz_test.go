//go:build verif

// C18 — native fuzz targets (thorough tier) of the root package and the byte-level event
// sub-check. Every target decodes its arguments into one of the Cases of the rapid sub-checks
// and evaluates it with the same check function, so signatures and replay files are shared.
package gomatrixserverlib

import (
	"fmt"
	"os"
	"path/filepath"
	"strings"
	"testing"

	"pgregory.net/rapid"
)

const c18MaxFuzzLen = 1 << 17

// ---------------------------------------------------------------------------------------------
// C18/event-bytes: generated events damaged at the byte level, and hostile texts, as events

func c18GenEventBytes(t *rapid.T) c18EvCase {
	c := c18GenEvent(t)
	switch rapid.IntRange(0, 5).Draw(t, "bytesMode") {
	case 0:
		c.Event = vfBytes(rapid.SampledFrom(c18JSONHostile).Draw(t, "hostile"))
	case 1:
		// a valid event wrapped / prefixed so that gjson and sjson see odd top levels
		c.Event = vfBytes(rapid.SampledFrom([]string{"[", " ", "{\"_x\":1,", "{\"unsigned\":{\"a\":\"\\ud800\"},", "{\"age_ts\":", "\xef\xbb\xbf"}).Draw(t, "prefix") + string(c.Event))
	default:
		c.Event = c18MutateBytes(t, c.Event, rapid.IntRange(1, 3).Draw(t, "nmut"))
	}
	c.NoRoom = rapid.Bool().Draw(t, "noRoom")
	return c
}

func init() {
	vfRapid("C18/event-bytes", "non-trivial = as C18/events (the damaged text was still accepted by NewEventFromUntrustedJSON and operations ran); most damaged texts must simply be refused without a panic.", 2500, 120000, 16, c18GenEventBytes, c18EvCheck)
}

// ---------------------------------------------------------------------------------------------
// decoding fuzz arguments

func c18FuzzVersion(b uint8) string { return vfVersions[int(b)%len(vfVersions)] }

// c18FuzzEvent builds a hashed, signed event of the chosen role whose content and identifier
// fields come from the fuzz arguments (flags select which of them replace the sensible ones).
func c18FuzzEvent(ver, role, flags uint8, content []byte, roomID, sender, stateKey string, depth int64) (c18EvCase, bool) {
	version := c18FuzzVersion(ver)
	jr := c18JoinRules[int(flags>>5)%len(c18JoinRules)]
	bob := c18Bobs[int(role>>4)%len(c18Bobs)]
	c := c18EvCase{Version: version, JoinRule: jr, Bob: bob}
	if version == "org.matrix.msc4014" && flags&16 != 0 {
		c.Querier = 1
	}
	room := c18GetRoom(version, jr, bob)
	roles := []string{"create", "power_levels", "join_rules", "member", "third_party_invite", "aliases", "redaction", "history_visibility", "message", "custom"}
	e := c18Base(version, room, roles[int(role&15)%len(roles)], int(depth&7))
	if len(content) > 0 {
		v, fl, err := jparse(content)
		if err != nil || fl.DupKeys || v.K != 'o' {
			return c, false
		}
		e.Content = v
	}
	ev := raJSON(version, e).without("hashes")
	if flags&1 != 0 {
		ev = ev.with("room_id", jstr(roomID))
	}
	if flags&2 != 0 {
		ev = ev.with("sender", jstr(sender))
	}
	if flags&4 != 0 {
		ev = ev.with("state_key", jstr(stateKey))
	}
	if depth < 0 || depth > 64 {
		ev = ev.with("depth", jnum(depth))
	}
	c.Event = vfBytes(jplain(c18Finish(version, ev, flags&8 != 0)))
	return c, true
}

func FuzzVF_C18_event_bytes(f *testing.F) {
	for i, c := range c18SeedEvents() {
		f.Add([]byte(c.Event), uint8(c18VersionIndex(c.Version)), uint8(i))
	}
	for _, s := range c18JSONHostile {
		f.Add([]byte(s), uint8(3), uint8(0))
	}
	f.Fuzz(func(t *testing.T, data []byte, ver uint8, flags uint8) {
		if len(data) > c18MaxFuzzLen {
			return
		}
		c := c18EvCase{Version: c18FuzzVersion(ver), Event: data, JoinRule: c18JoinRules[int(flags)%len(c18JoinRules)], Bob: c18Bobs[int(flags>>3)%len(c18Bobs)], NoRoom: flags&128 != 0}
		vfFuzzEval(t, "C18/event-bytes", c, c18EvCheck)
	})
}

func FuzzVF_C18_event_fields(f *testing.F) {
	for _, s := range c18SeedFields() {
		f.Add(s.ver, s.role, s.flags, []byte(s.content), s.roomID, s.sender, s.stateKey, s.depth)
	}
	f.Fuzz(func(t *testing.T, ver, role, flags uint8, content []byte, roomID, sender, stateKey string, depth int64) {
		if len(content) > c18MaxFuzzLen/2 || len(roomID)+len(sender)+len(stateKey) > 4096 {
			return
		}
		c, ok := c18FuzzEvent(ver, role, flags, content, roomID, sender, stateKey, depth)
		if !ok {
			return
		}
		vfFuzzEval(t, "C18/events", c, c18EvCheck)
	})
}

func FuzzVF_C18_json(f *testing.F) {
	for _, s := range c18JSONHostile {
		f.Add([]byte(s), uint8(4), uint8(10))
	}
	f.Fuzz(func(t *testing.T, data []byte, v1, v2 uint8) {
		if len(data) > c18MaxFuzzLen {
			return
		}
		vfFuzzEval(t, "C18/json", c18JSONCase{Text: data, Versions: []string{c18FuzzVersion(v1), c18FuzzVersion(v2)}}, c18JSONCheck)
	})
}

func FuzzVF_C18_sign(f *testing.F) {
	for _, s := range c18SeedSign() {
		f.Add(s.Name, s.KeyID, []byte(s.Key), []byte(s.Message))
	}
	f.Fuzz(func(t *testing.T, name, keyID string, key, msg []byte) {
		if len(msg) > c18MaxFuzzLen || len(key) > 256 || len(name)+len(keyID) > 1024 {
			return
		}
		vfFuzzEval(t, "C18/sign", c18SignCase{Name: name, KeyID: keyID, Key: key, Message: msg}, c18SignCheck)
	})
}

func FuzzVF_C18_keys(f *testing.F) {
	for _, s := range c18SeedKeys() {
		f.Add(s.ServerName, []byte(s.Body), s.KeyID, s.TS)
	}
	f.Fuzz(func(t *testing.T, name string, body []byte, keyID string, ts int64) {
		if len(body) > c18MaxFuzzLen || len(name)+len(keyID) > 1024 {
			return
		}
		vfFuzzEval(t, "C18/keys", c18KeysCase{ServerName: name, Body: body, KeyID: keyID, TS: ts}, c18KeysCheck)
	})
}

// c18FuzzResp: the small room's /state answer with up to two foreign entries spliced in. The
// real-signature verifier (mode 3) is left to the rapid sub-check and to FuzzVF_C18_sign: under
// the fuzzer's instrumentation ed25519 makes an execution about twenty times slower.
func c18FuzzResp(ver, flags, where uint8, extra1, extra2, join []byte) c18RespCase {
	version := c18FuzzVersion(ver)
	room := c18GetRoom(version, c18JoinRules[int(flags>>4)%len(c18JoinRules)], c18Bobs[int(where>>4)%len(c18Bobs)])
	c := c18RespCase{Version: version, State: c18Trees(room.State), Auth: c18Trees(room.Chain), Verifier: []int{0, 0, 1, 2}[int(flags)&3], Missing: int(flags>>2) & 3 % 3}
	if version == "org.matrix.msc4014" && where&8 != 0 {
		c.Querier = 1
	}
	put := func(data []byte, sel uint8) {
		if len(data) == 0 {
			return
		}
		switch sel & 3 {
		case 0:
			c.State = append(c.State, vfBytes(data))
		case 1:
			c.Auth = append(c.Auth, vfBytes(data))
		case 2:
			c.State = append([]vfBytes{vfBytes(data)}, c.State[1:]...) // in place of the create event
		default:
			c.Auth = append([]vfBytes{vfBytes(data)}, c.Auth[1:]...)
		}
	}
	put(extra1, where)
	put(extra2, where>>2)
	if len(join) > 0 {
		c.Join = join
	} else {
		c.Join = vfBytes(jplain(room.Probes[1]))
	}
	return c
}

func FuzzVF_C18_resp(f *testing.F) {
	// Small structured arguments (the event spliced into the answer is built, hashed and signed from
	// them): one execution costs tens of milliseconds, and the fuzzer's minimiser re-executes the
	// target once per byte of every []byte / string argument.
	for _, s := range c18SeedFields() {
		f.Add(s.ver, s.role, s.flags, uint8(len(s.content)), []byte(s.content), s.roomID, s.sender, s.stateKey, s.depth)
	}
	f.Fuzz(func(t *testing.T, ver, role, flags, where uint8, content []byte, roomID, sender, stateKey string, depth int64) {
		if len(content) > 4096 || len(roomID)+len(sender)+len(stateKey) > 2048 {
			return
		}
		c, ok := c18FuzzEvent(ver, role, flags, content, roomID, sender, stateKey, depth)
		if !ok {
			return
		}
		var extra2 []byte
		switch where >> 6 {
		case 1:
			extra2 = c.Event // the same PDU twice
		case 2:
			extra2 = []byte("null")
		}
		vfFuzzEval(t, "C18/resp", c18FuzzResp(ver, flags, where, c.Event, extra2, nil), c18RespCheck)
	})
}

func FuzzVF_C18_join(f *testing.F) {
	for _, s := range c18SeedJoin() {
		f.Add([]byte(s.MakeJoin), uint8(c18VersionIndex(s.Version)), []byte(s.Event), uint8(0))
	}
	f.Fuzz(func(t *testing.T, makeJoin []byte, ver uint8, event []byte, flags uint8) {
		if len(makeJoin)+len(event) > c18MaxFuzzLen {
			return
		}
		version := c18FuzzVersion(ver)
		room := c18GetRoom(version, c18JoinRules[int(flags)%len(c18JoinRules)], c18Bobs[int(flags>>3)%len(c18Bobs)])
		c := c18JoinCase{MakeJoin: makeJoin, Version: version, State: c18Trees(room.State), Auth: c18Trees(room.Chain), Event: event}
		if flags&128 != 0 {
			c.Auth = c.Auth[1:]
		}
		vfFuzzEval(t, "C18/join", c, c18JoinCheck)
	})
}

// ---------------------------------------------------------------------------------------------
// seeds (hostile constants collected from reading the code); also written to /verif/corpus by
// TestVF_C18_DumpCorpus when VF_C18_DUMP names a directory.

func c18VersionIndex(v string) int {
	for i, x := range vfVersions {
		if x == v {
			return i
		}
	}
	return 0
}

// c18SeedEvents: one finished event per named hostile constant (a few versions each).
func c18SeedEvents() []c18EvCase {
	var out []c18EvCase
	add := func(version, role string, variant int, edit func(e *raEv, room *c18Room), top func(ev jv, room *c18Room) jv) {
		jr, bob := "restricted", "leave"
		room := c18GetRoom(version, jr, bob)
		e := c18Base(version, room, role, variant)
		if edit != nil {
			edit(&e, room)
		}
		ev := raJSON(version, e).without("hashes")
		if top != nil {
			ev = top(ev, room)
		}
		q := 0
		if version == "org.matrix.msc4014" {
			q = 1
		}
		out = append(out, c18EvCase{Version: version, JoinRule: jr, Bob: bob, Querier: q, Event: vfBytes(jplain(c18Finish(version, ev, false)))})
	}
	setTop := func(key string, v jv) func(jv, *c18Room) jv {
		return func(ev jv, _ *c18Room) jv { return ev.with(key, v) }
	}
	// room IDs that pass the parse-time check but are not room IDs
	add("10", "message", 0, nil, setTop("room_id", jstr("!:example.com")))
	add("1", "message", 0, nil, setTop("room_id", jstr("!:example.com")))
	add("12", "message", 0, nil, setTop("room_id", jstr("!x")))
	add("org.matrix.hydra.11", "member", 0, nil, setTop("room_id", jstr("!")))
	add("12", "message", 0, nil, setTop("room_id", jstr("!"+strings.Repeat("B", 42))))
	add("11", "message", 0, nil, setTop("room_id", jstr("!"+strings.Repeat("é", 130)+":h.test")))
	add("9", "create", 0, nil, setTop("room_id", jstr("!a:b c")))
	// numbers redaction cannot decode
	for _, v := range []string{"1", "3", "4", "5"} {
		add(v, "message", 0, func(e *raEv, _ *c18Room) { e.Content = jobj("x", jv{K: '#', S: "1e400"}) }, nil)
		add(v, "power_levels", 0, func(e *raEv, _ *c18Room) { e.Content = e.Content.with("ban", jv{K: '#', S: "1e400"}) }, nil)
	}
	// empty / odd senders in the pseudo-ID version
	add("org.matrix.msc4014", "message", 0, nil, setTop("sender", jstr("")))
	add("org.matrix.msc4014", "member", 0, nil, setTop("sender", jstr("AAAA")))
	add("org.matrix.msc4014", "aliases", 0, nil, setTop("sender", jstr(c18PseudoKey("bob"))))
	add("org.matrix.msc4014", "create", 0, nil, setTop("sender", jstr(c18PseudoKey("alice"))))
	// regression seeds (fixed in the tree): restricted join in msc3787, short third-party keys, aliases without state key
	add("org.matrix.msc3787", "member", 0, nil, nil)
	add("10", "third_party_invite", 0, func(e *raEv, _ *c18Room) {
		e.Content = jobj("display_name", jstr("x"), "public_key", jstr("AAAA"), "public_keys", jarr(jobj("public_key", jstr("AAAA")), jobj("public_key", jstr(""))))
	}, nil)
	add("5", "aliases", 0, func(e *raEv, _ *c18Room) { e.StateKey = nil }, nil)
	add("10", "aliases", 0, func(e *raEv, _ *c18Room) { e.StateKey = nil }, nil)
	// create events whose content does not fit CreateContent
	for _, v := range []string{"10", "11", "12"} {
		add(v, "create", 0, func(e *raEv, _ *c18Room) { e.Content = e.Content.with("creator", jnum(5)) }, nil)
		add(v, "create", 0, func(e *raEv, _ *c18Room) { e.Content = e.Content.with("additional_creators", jstr("x")) }, nil)
		add(v, "create", 0, func(e *raEv, _ *c18Room) { e.Content = e.Content.with("predecessor", jarr()) }, nil)
		add(v, "create", 0, func(e *raEv, _ *c18Room) { e.Content = e.Content.with("m.federate", jstr("no")) }, nil)
	}
	// power levels: empty user ID, huge values, strings
	for _, v := range []string{"1", "6", "10", "12"} {
		add(v, "power_levels", 0, func(e *raEv, _ *c18Room) { e.Content = e.Content.with("users", jobj("", jnum(1))) }, nil)
		add(v, "power_levels", 0, func(e *raEv, _ *c18Room) { e.Content = e.Content.with("users", jobj("@", jnum(1), "@:", jnum(2))) }, nil)
		add(v, "power_levels", 0, func(e *raEv, _ *c18Room) {
			e.Content = e.Content.with("ban", jnum(9007199254740991)).with("kick", jnum(-9007199254740991))
		}, nil)
	}
	// member events without state key / with odd membership
	add("4", "member", 1, func(e *raEv, _ *c18Room) { e.StateKey = nil }, nil)
	add("org.matrix.msc4014", "member", 1, func(e *raEv, _ *c18Room) { e.StateKey = nil }, nil)
	add("8", "member", 0, func(e *raEv, _ *c18Room) { e.Content = e.Content.with("join_authorised_via_users_server", jstr("@")) }, nil)
	add("9", "member", 1, func(e *raEv, _ *c18Room) {
		e.Content = e.Content.with("third_party_invite", jobj("signed", jobj("mxid", jstr(c07Carol), "token", jstr("tok"), "signatures", jobj("id.example", jobj("ed25519:0", jstr("AAAA"))))))
	}, nil)
	// power_levels / member events used as auth events without a state key
	add("2", "power_levels", 0, func(e *raEv, _ *c18Room) { e.StateKey = nil }, nil)
	add("1", "third_party_invite", 0, func(e *raEv, _ *c18Room) { e.StateKey = nil }, nil)
	// reference lists
	add("1", "message", 0, nil, setTop("prev_events", jarr(jarr(jstr(""), jobj("sha256", jstr(""))))))
	add("3", "message", 0, nil, setTop("auth_events", jarr(jstr(""), jstr("$"))))
	add("12", "message", 0, nil, setTop("auth_events", jv{K: 'n'}))
	// sticky
	add("11", "message", 0, nil, setTop("sticky", jobj("duration_ms", jnum(9007199254740991))))
	// senders the pseudo-ID room's sender table has never seen (querier answers nil, nil)
	add("org.matrix.msc4014", "create", 0, nil, setTop("sender", jstr(strings.Repeat("A", 43))))
	add("org.matrix.msc4014", "redaction", 0, nil, setTop("sender", jstr(strings.Repeat("A", 43))))
	add("org.matrix.msc4014", "aliases", 0, nil, setTop("sender", jstr("@:")))
	add("org.matrix.msc4014", "power_levels", 0, func(e *raEv, _ *c18Room) { e.Content = e.Content.with("users", jobj(strings.Repeat("A", 43), jnum(1))) }, nil)
	// signatures blocks that SignJSON / Sign trip over
	sig86 := strings.Repeat("A", 86)
	for _, v := range []string{"1", "10", "12"} {
		add(v, "member", 1, nil, setTop("signatures", jobj("a.example", jobj("ed25519:1", jstr(sig86)), "local.example", jv{K: 'n'})))
		add(v, "member", 1, nil, setTop("signatures", jv{K: 'n'}))
		add(v, "member", 1, nil, setTop("signatures", jobj("a.example", jobj("ed25519:1", jobj()))))
		add(v, "message", 0, func(e *raEv, _ *c18Room) { e.Content = jobj("x", jnum(1)) }, setTop("content", jarr()))
		add(v, "create", 0, nil, setTop("content", jstr("x")))
		// duplicate keys: a later null after a good value
		add(v, "message", 0, nil, func(ev jv, _ *c18Room) jv { n := jv{K: 'n'}; return c18ApplyTop(ev, "room_id", &n, true) })
		add(v, "message", 0, nil, func(ev jv, _ *c18Room) jv { n := jv{K: 'n'}; return c18ApplyTop(ev, "sender", &n, true) })
		add(v, "member", 0, nil, func(ev jv, _ *c18Room) jv { n := jv{K: 'n'}; return c18ApplyTop(ev, "state_key", &n, true) })
		add(v, "message", 0, nil, func(ev jv, _ *c18Room) jv { n := jstr("m.room.create"); return c18ApplyTop(ev, "type", &n, true) })
		// valid events of every role (SetUnsigned / Sign / Redact on the plain thing)
		for _, role := range []string{"create", "power_levels", "join_rules", "member", "third_party_invite", "redaction"} {
			add(v, role, 0, nil, nil)
		}
	}
	// texts that are not objects
	for _, v := range []string{"1", "3", "10", "12", "org.matrix.msc4014"} {
		for _, text := range []string{"null", "[]", "5", `"x"`, "true", " null ", "{}", `{"type":null}`, `{"room_id":"!a:b"}`} {
			out = append(out, c18EvCase{Version: v, JoinRule: "public", Bob: "-", Event: vfBytes(text), NoRoom: true})
		}
	}
	return out
}

type c18FieldSeed struct {
	ver, role, flags         uint8
	content                  string
	roomID, sender, stateKey string
	depth                    int64
}

func c18SeedFields() []c18FieldSeed {
	var out []c18FieldSeed
	for v := 0; v < len(vfVersions); v++ {
		out = append(out,
			c18FieldSeed{ver: uint8(v), role: 8, flags: 1, content: `{"body":"x"}`, roomID: "!:example.com"},
			c18FieldSeed{ver: uint8(v), role: 8, flags: 1, content: `{"x":1e400}`, roomID: "!x"},
			c18FieldSeed{ver: uint8(v), role: 8, flags: 2, content: `{}`, sender: ""},
			c18FieldSeed{ver: uint8(v), role: 1, flags: 0, content: `{"users":{"":1,"@":2},"ban":"50","events":{"m.room.name":9007199254740991}}`},
			c18FieldSeed{ver: uint8(v), role: 0, flags: 0, content: `{"creator":5,"room_version":7,"additional_creators":["x",5],"predecessor":[]}`},
			c18FieldSeed{ver: uint8(v), role: 3, flags: 4, content: `{"membership":"invite","third_party_invite":{"signed":{"mxid":"@carol:c.example","token":"tok","signatures":{"id.example":{"ed25519:0":"AAAA"}}}}}`, stateKey: c07Carol},
			c18FieldSeed{ver: uint8(v), role: 3, flags: 0x20 * 4, content: `{"membership":"join","join_authorised_via_users_server":"@alice:a.example"}`},
			c18FieldSeed{ver: uint8(v), role: 2, flags: 0, content: `{"join_rule":5,"allow":{"type":1}}`},
			c18FieldSeed{ver: uint8(v), role: 4, flags: 0, content: `{"public_key":"AAAA","public_keys":[{"public_key":""},{"public_key":5},5]}`},
			c18FieldSeed{ver: uint8(v), role: 5, flags: 4, content: `{"aliases":5}`, stateKey: ""},
		)
	}
	return out
}

func c18SeedSign() []c18SignCase {
	pub, priv := vfKeyFor("origin:a.example")
	_ = priv
	msgs := []string{`{"a":1,"signatures":{"a.example":{"ed25519:1":"AAAA"}}}`, `{"signatures":{"a.example":{"ed25519:1":""}}}`, `{"signatures":{"a.example":{"ed25519:1":5}}}`,
		`{"signatures":{"a.example":5}}`, `{"signatures":5}`, `{"signatures":null,"unsigned":null}`, `{"x":1e400,"signatures":{"a.example":{"ed25519:1":"` + strings.Repeat("A", 86) + `"}}}`,
		`{"a":"\ud800","signatures":{"a.example":{"ed25519:1":"` + strings.Repeat("A", 86) + `"}}}`, `[]`, `"x"`, ``, `{"signatures":{"":{"":""}}}`}
	var out []c18SignCase
	for _, m := range msgs {
		for _, k := range [][]byte{pub, pub[:31], nil, append(c18Copy(pub), 0), make([]byte, 64)} {
			out = append(out, c18SignCase{Name: "a.example", KeyID: "ed25519:1", Key: k, Message: vfBytes(m)})
		}
	}
	out = append(out, c18SignCase{Name: "", KeyID: "", Key: vfBytes(pub), Message: vfBytes(`{"signatures":{"":{"":"` + strings.Repeat("A", 86) + `"}}}`)})
	return out
}

func c18SeedKeys() []c18KeysCase {
	bodies := []string{
		`{"server_name":"a.example","valid_until_ts":1800000000000,"verify_keys":{"ed25519:1":{"key":"AAAA"}},"signatures":{"a.example":{"ed25519:1":"AAAA"}}}`,
		`{"server_name":"a.example","valid_until_ts":1800000000000,"verify_keys":{"ed25519:1":{"key":""}},"old_verify_keys":{"ed25519:old":{"key":"AAAA","expired_ts":1000}}}`,
		`{"server_name":"a.example","valid_until_ts":-1,"verify_keys":{"":{"key":"` + strings.Repeat("A", 43) + `"}}}`,
		`{"server_name":5}`, `{"verify_keys":{"ed25519:1":5}}`, `{"verify_keys":[]}`, `{"old_verify_keys":{"ed25519:1":{"key":"!!!"}}}`, `{}`, `[]`, `null`,
		`{"server_name":"a.example","valid_until_ts":18446744073709551615,"verify_keys":{"ed25519":{"key":"` + strings.Repeat("A", 43) + `"},":":{"key":"` + strings.Repeat("A", 44) + `"}}}`,
	}
	var out []c18KeysCase
	for _, b := range bodies {
		out = append(out, c18KeysCase{ServerName: "a.example", Body: vfBytes(b), KeyID: "ed25519:1", TS: 1000})
	}
	return out
}

func c18SeedJoin() []c18JoinCase {
	var out []c18JoinCase
	tmpl := func(version, prev, auth, content string) c18JoinCase {
		rv := `"` + version + `"`
		if version == "" {
			rv = "null"
		}
		body := fmt.Sprintf(`{"event":{"type":"m.room.member","sender":"@bob:b.example","state_key":"@bob:b.example","room_id":"!room:a.example","content":%s,"depth":10,"prev_events":%s,"auth_events":%s,"origin":"b.example","origin_server_ts":5000},"room_version":%s}`, content, prev, auth, rv)
		v := version
		if v == "" {
			v = "1"
		}
		return c18JoinCase{MakeJoin: vfBytes(body), Version: v}
	}
	for _, v := range []string{"1", "2", "", "4", "10", "12", "org.matrix.msc4014"} {
		out = append(out,
			tmpl(v, `[]`, `[]`, `{"membership":"join"}`),
			tmpl(v, `[""]`, `[""]`, `{"membership":"join"}`),
			tmpl(v, `[[]]`, `[[5,{}]]`, `{"membership":"join"}`),
			tmpl(v, `[["$a:b",{"sha256":"x"}]]`, `["$a:b"]`, `{"membership":"join"}`),
			tmpl(v, `[5]`, `null`, `null`),
			tmpl(v, `"x"`, `{}`, `{"membership":5,"x":1e400}`),
		)
	}
	return out
}

// TestVF_C18_DumpCorpus writes the seeds above as Go fuzz corpus files (one directory per target).
func TestVF_C18_DumpCorpus(t *testing.T) {
	dir := os.Getenv("VF_C18_DUMP")
	if dir == "" {
		t.Skip("VF_C18_DUMP not set")
	}
	write := func(target string, i int, lines ...string) {
		d := filepath.Join(dir, target)
		if err := os.MkdirAll(d, 0o755); err != nil {
			t.Fatal(err)
		}
		body := "go test fuzz v1\n" + strings.Join(lines, "\n") + "\n"
		if err := os.WriteFile(filepath.Join(d, fmt.Sprintf("seed-%03d", i)), []byte(body), 0o644); err != nil {
			t.Fatal(err)
		}
	}
	b := func(x []byte) string { return fmt.Sprintf("[]byte(%q)", string(x)) }
	str := func(x string) string { return fmt.Sprintf("string(%q)", x) }
	u8 := func(x uint8) string { return fmt.Sprintf("uint8(%d)", x) }
	for i, c := range c18SeedEvents() {
		write("FuzzVF_C18_event_bytes", i, b(c.Event), u8(uint8(c18VersionIndex(c.Version))), u8(uint8(i)))
	}
	for i, s := range c18SeedFields() {
		write("FuzzVF_C18_event_fields", i, u8(s.ver), u8(s.role), u8(s.flags), b([]byte(s.content)), str(s.roomID), str(s.sender), str(s.stateKey), fmt.Sprintf("int64(%d)", s.depth))
		write("FuzzVF_C18_resp", i, u8(s.ver), u8(s.role), u8(s.flags), u8(uint8(i*37)), b([]byte(s.content)), str(s.roomID), str(s.sender), str(s.stateKey), fmt.Sprintf("int64(%d)", s.depth))
	}
	for i, s := range c18JSONHostile {
		write("FuzzVF_C18_json", i, b([]byte(s)), u8(4), u8(10))
	}
	for i, s := range c18SeedSign() {
		write("FuzzVF_C18_sign", i, str(s.Name), str(s.KeyID), b(s.Key), b(s.Message))
	}
	for i, s := range c18SeedKeys() {
		write("FuzzVF_C18_keys", i, str(s.ServerName), b(s.Body), str(s.KeyID), fmt.Sprintf("int64(%d)", s.TS))
	}
	for i, s := range c18SeedJoin() {
		write("FuzzVF_C18_join", i, b(s.MakeJoin), u8(uint8(c18VersionIndex(s.Version))), b(s.Event), u8(0))
	}
}

// texts cut inside / right behind an escaped surrogate pair (an event truncated between the halves of an
// escaped emoji, or ending on the backslash that would start the second half): scanners that look ahead
// for the second \\uXXXX must not read past the end
func init() {
	pair := "\\ud83d\\ude00"
	for _, base := range []string{
		`{"type":"m.room.message","room_id":"!r:a.example","sender":"@a:a.example","content":{"body":"` + pair,
		`{"content":{"` + "\\uDBFF\\uDFFF",
		`"` + pair,
		`{"type":"m.room.message","content":{"body":"x\\\\` + pair,
	} {
		for cut := 0; cut <= 12 && cut < len(base); cut++ {
			c18JSONHostile = append(c18JSONHostile, base[:len(base)-cut])
		}
	}
}
