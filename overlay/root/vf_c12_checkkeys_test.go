//go:build verif

package gomatrixserverlib

// C12/checkkeys — CheckKeys, DirectKeyFetcher and PerspectiveKeyFetcher against a scripted KeyClient.
//
// A Case describes key responses as *specifications* (server name, valid_until_ts, verify keys,
// old verify keys, who signs with which key and whether the signature is damaged); the check builds
// and signs the JSON at check time so that valid_until_ts can be placed relative to the wall clock.
// The oracle reads the built JSON back with the reference parser and judges:
//   CheckKeys      AllChecksOK <=> requested name == server_name AND valid_until_ts after `now`
//                  AND >= 1 ed25519 verify key AND every ed25519 verify key is 32 bytes and the
//                  response carries a signature of server_name under that key ID that verifies;
//   fetchers       soundness: every key in the result comes from a response served in this call
//                  that names the queried server (direct) / carries a verifying signature of the
//                  notary under a configured key (perspective), is signed by the server it names,
//                  and has a valid_until_ts in the future (wall clock);
//                  completeness: an acceptable response is mapped completely (verify keys with the
//                  response's valid_until_ts, old keys with their expired_ts).

import (
	"bytes"
	"context"
	stded "crypto/ed25519"
	"encoding/json"
	"errors"
	"fmt"
	"sort"
	"strings"
	"sync"
	"time"

	"github.com/matrix-org/gomatrixserverlib/spec"
	"golang.org/x/crypto/ed25519"
	"pgregory.net/rapid"
)

// ---- Case ----

type c12VK struct {
	KeyID string  `json:"key_id"`
	Key   vfBytes `json:"key"`
}

type c12OK struct {
	KeyID   string  `json:"key_id"`
	Key     vfBytes `json:"key"`
	Expired c12TS   `json:"expired"`
}

type c12SigSpec struct {
	Signer  string `json:"signer"`
	KeyID   string `json:"key_id"`
	Pool    int    `json:"pool"`              // index of the signing key in the pool
	Corrupt bool   `json:"corrupt,omitempty"` // flip one bit of the signature
	Junk    bool   `json:"junk,omitempty"`    // the signature value is not base64
}

type c12RespSpec struct {
	Name       string       `json:"name"`
	ValidUntil c12TS        `json:"valid_until"`
	Verify     []c12VK      `json:"verify"`
	Old        []c12OK      `json:"old,omitempty"`
	Sigs       []c12SigSpec `json:"sigs,omitempty"`
	Spaced     bool         `json:"spaced,omitempty"` // non-canonical presentation on the wire
	Tag        string       `json:"tag,omitempty"`
}

type c12DirectScript struct {
	Server    string        `json:"server"`
	Err       bool          `json:"err,omitempty"`  // GetServerKeys fails
	Resp      *c12RespSpec  `json:"resp,omitempty"` // GetServerKeys answer
	NotaryErr bool          `json:"notary_err,omitempty"`
	Notary    []c12RespSpec `json:"notary,omitempty"` // LookupServerKeys(server, ...) answer
}

type c12KeyReq struct {
	Server string `json:"server"`
	KeyID  string `json:"key_id"`
}

type c12KCase struct {
	Mode string `json:"mode"` // "checkkeys" | "direct" | "perspective"

	// checkkeys
	Server string       `json:"server,omitempty"` // the serverName argument
	Now    c12TS        `json:"now"`              // the now argument
	Resp   *c12RespSpec `json:"resp,omitempty"`

	// fetchers
	Requests []c12KeyReq       `json:"requests,omitempty"`
	Direct   []c12DirectScript `json:"direct,omitempty"`

	Perspective     string        `json:"perspective,omitempty"`
	PerspectiveKeys []c12VK       `json:"perspective_keys,omitempty"`
	PerspectiveErr  bool          `json:"perspective_err,omitempty"`
	PerspectiveResp []c12RespSpec `json:"perspective_resp,omitempty"`
}

// ---- building a response ----

func c12BuildResp(r c12RespSpec, now int64) []byte {
	vk := jv{K: 'o'}
	for _, k := range r.Verify {
		vk.O = append(vk.O, jkv{k.KeyID, jobj("key", jstr(c12B64Enc(k.Key)))})
	}
	obj := jobj("server_name", jstr(r.Name),
		"valid_until_ts", jv{K: '#', S: fmt.Sprint(r.ValidUntil.ms(now))},
		"verify_keys", vk)
	if len(r.Old) > 0 {
		ok := jv{K: 'o'}
		for _, k := range r.Old {
			ok.O = append(ok.O, jkv{k.KeyID, jobj("key", jstr(c12B64Enc(k.Key)), "expired_ts", jv{K: '#', S: fmt.Sprint(k.Expired.ms(now))})})
		}
		obj.O = append(obj.O, jkv{"old_verify_keys", ok})
	}
	canon := []byte(jcanon(obj))
	sigs := jv{K: 'o'}
	for _, s := range r.Sigs {
		val := jstr(c12B64Enc(c12SignWith(s.Pool, canon)))
		if s.Corrupt {
			val = jstr(c12B64Enc(c12Flip(c12SignWith(s.Pool, canon))))
		}
		if s.Junk {
			val = jstr("**junk**")
		}
		placed := false
		for i := range sigs.O {
			if sigs.O[i].Key == s.Signer {
				sigs.O[i].Val = sigs.O[i].Val.with(s.KeyID, val)
				placed = true
			}
		}
		if !placed {
			sigs.O = append(sigs.O, jkv{s.Signer, jobj(s.KeyID, val)})
		}
	}
	full := obj.with("signatures", sigs)
	if r.Spaced {
		return []byte(strings.ReplaceAll(jplain(full), ",", " ,\n"))
	}
	return []byte(jcanon(full))
}

// ---- independent reading of a key response ----

type c12OldKey struct {
	key     []byte
	expired uint64
}

type c12KeyResp struct {
	raw       []byte
	queried   string // the server the client was asked about ("" for perspective)
	signed    c12Signed
	malformed bool
	name      string
	vu        uint64
	verify    map[string][]byte
	old       map[string]c12OldKey
}

func c12ReadResp(raw []byte) c12KeyResp {
	r := c12KeyResp{raw: raw, verify: map[string][]byte{}, old: map[string]c12OldKey{}}
	r.signed = c12Analyse(raw)
	if r.signed.Err != "" || r.signed.Dup {
		r.malformed = true
		return r
	}
	o := r.signed.Obj
	if v, ok := o.get("server_name"); ok && v.K == 's' {
		r.name = v.S
	} else {
		r.malformed = true
	}
	if v, ok := o.get("valid_until_ts"); ok && v.K == '#' {
		n, ok := c12Uint(v.S)
		if !ok {
			r.malformed = true
		}
		r.vu = n
	} else {
		r.malformed = true
	}
	readKey := func(v jv) ([]byte, bool) {
		kv, ok := v.get("key")
		if v.K != 'o' || !ok || kv.K != 's' {
			return nil, false
		}
		return c12B64(kv.S)
	}
	if v, ok := o.get("verify_keys"); ok {
		if v.K != 'o' {
			r.malformed = true
		}
		for _, m := range v.O {
			k, ok := readKey(m.Val)
			if !ok {
				r.malformed = true
				continue
			}
			r.verify[m.Key] = k
		}
	}
	if v, ok := o.get("old_verify_keys"); ok {
		if v.K != 'o' {
			r.malformed = true
		}
		for _, m := range v.O {
			k, ok := readKey(m.Val)
			ev, ok2 := m.Val.get("expired_ts")
			n, ok3 := c12Uint(ev.S)
			if !ok || !ok2 || ev.K != '#' || !ok3 {
				r.malformed = true
				continue
			}
			r.old[m.Key] = c12OldKey{k, n}
		}
	}
	return r
}

func c12IsEd(keyID string) bool { return strings.SplitN(keyID, ":", 2)[0] == "ed25519" }

// edKeys lists the ed25519 verify keys; bare=true if some verify key ID has no ':' at all
// (not a key ID by the grammar algorithm:version — left unjudged).
func (r c12KeyResp) edKeys() (ids []string, bare bool) {
	for id := range r.verify {
		if !strings.Contains(id, ":") {
			bare = true
		}
		if c12IsEd(id) {
			ids = append(ids, id)
		}
	}
	sort.Strings(ids)
	return
}

// selfSigned: >= 1 ed25519 verify key, each 32 bytes with a verifying signature of the named server.
func (r c12KeyResp) selfSigned() (all bool, any bool) {
	ids, _ := r.edKeys()
	all = len(ids) > 0
	for _, id := range ids {
		if r.signed.verifies(r.name, id, r.verify[id]) {
			any = true
		} else {
			all = false
		}
	}
	return
}

// ---- scripted KeyClient ----

type c12Client struct {
	mu          sync.Mutex
	now         int64
	direct      map[string]c12DirectScript
	perspective string
	pErr        bool
	pResp       []c12RespSpec
	served      []c12KeyResp
	getCalls    []string
	lookupCalls []string
}

func (cl *c12Client) parse(raw []byte, queried string) (ServerKeys, error) {
	var keys ServerKeys
	if err := json.Unmarshal(raw, &keys); err != nil {
		return keys, err
	}
	rr := c12ReadResp(raw)
	rr.queried = queried
	cl.served = append(cl.served, rr)
	return keys, nil
}

func (cl *c12Client) GetServerKeys(_ context.Context, s spec.ServerName) (ServerKeys, error) {
	cl.mu.Lock()
	defer cl.mu.Unlock()
	cl.getCalls = append(cl.getCalls, string(s))
	sc, ok := cl.direct[string(s)]
	if !ok || sc.Err || sc.Resp == nil {
		return ServerKeys{}, errors.New("c12: scripted GetServerKeys failure")
	}
	return cl.parse(c12BuildResp(*sc.Resp, cl.now), string(s))
}

func (cl *c12Client) LookupServerKeys(_ context.Context, s spec.ServerName, _ map[PublicKeyLookupRequest]spec.Timestamp) ([]ServerKeys, error) {
	cl.mu.Lock()
	defer cl.mu.Unlock()
	cl.lookupCalls = append(cl.lookupCalls, string(s))
	var specs []c12RespSpec
	queried := string(s)
	if string(s) == cl.perspective && cl.perspective != "" {
		if cl.pErr {
			return nil, errors.New("c12: scripted LookupServerKeys failure")
		}
		specs = cl.pResp
		queried = ""
	} else {
		sc, ok := cl.direct[string(s)]
		if !ok || sc.NotaryErr {
			return nil, errors.New("c12: scripted LookupServerKeys failure")
		}
		specs = sc.Notary
	}
	var out []ServerKeys
	for _, sp := range specs {
		k, err := cl.parse(c12BuildResp(sp, cl.now), queried)
		if err != nil {
			return nil, err
		}
		out = append(out, k)
	}
	return out, nil
}

// ---- check ----

func c12KTag(ctx *vfCtx, prefix, tag string) {
	for _, s := range c12TagClasses(prefix, tag) {
		ctx.Class(s)
	}
}

func c12KCheck(ctx *vfCtx, c c12KCase) {
	ctx.Class("mode/" + c.Mode)
	switch c.Mode {
	case "checkkeys":
		c12KCheckKeys(ctx, c)
	case "direct":
		c12KDirect(ctx, c)
	case "perspective":
		c12KPerspective(ctx, c)
	}
}

func c12KCheckKeys(ctx *vfCtx, c c12KCase) {
	if c.Resp == nil {
		return
	}
	c12KTag(ctx, "", c.Resp.Tag)
	raw := c12BuildResp(*c.Resp, 0)
	var keys ServerKeys
	if err := json.Unmarshal(raw, &keys); err != nil {
		ctx.Unjudged("response does not decode into ServerKeys")
		return
	}
	r := c12ReadResp(raw)
	if r.malformed {
		ctx.Unjudged("response malformed for the reference reader")
		return
	}
	nowMs := int64(c.Now.ms(0))
	var checks KeyChecks
	var got map[KeyID]spec.Base64Bytes
	if vfCatch(ctx, "C12", func() { checks, got = CheckKeys(spec.ServerName(c.Server), time.UnixMilli(nowMs), keys) }) {
		return
	}
	ids, bare := r.edKeys()
	if bare {
		ctx.Class("checkkeys/bare-key-id(unjudged)")
		ctx.Unjudged("verify key ID without ':'")
		return
	}
	nameOK := c.Server == r.name
	future := int64(r.vu) > nowMs
	all, any := r.selfSigned()
	lens := true
	for _, id := range ids {
		if len(r.verify[id]) != stded.PublicKeySize {
			lens = false
		}
	}
	want := nameOK && future && all
	ctx.NonTrivial()
	if d := int64(r.vu) - nowMs; d >= -1 && d <= 1 {
		ctx.Class(fmt.Sprintf("checkkeys/valid_until-now=%+d", d))
	}
	ctx.Class(fmt.Sprintf("checkkeys/name=%v,future=%v,ed-keys=%d,all-signed=%v,lengths-ok=%v", nameOK, future, len(ids), all, lens))
	if checks.AllChecksOK {
		ctx.Class("checkkeys/accepted")
		switch {
		case !nameOK:
			ctx.Fail("C12/checkkeys/accepted-wrong-name", "CheckKeys(%q) accepted a response naming %q", c.Server, r.name)
		case !future:
			ctx.Fail("C12/checkkeys/accepted-past-valid-until", "CheckKeys accepted valid_until_ts %d at now %d", r.vu, nowMs)
		case len(ids) == 0:
			ctx.Fail("C12/checkkeys/accepted-without-ed25519-key", "CheckKeys accepted a response with no ed25519 verify key: %s", raw)
		case !any:
			ctx.Fail("C12/checkkeys/accepted-unsigned", "CheckKeys accepted a response that carries no verifying signature of %q: %s", r.name, raw)
		case !all:
			ctx.Fail("C12/checkkeys/accepted-partially-signed", "CheckKeys accepted a response in which some ed25519 verify key is malformed or has no verifying signature: %s", raw)
		}
		// the returned key map: exactly the ed25519 verify keys
		if want {
			if len(got) != len(ids) {
				ctx.Fail("C12/checkkeys/key-map", "accepted, but the returned map has %d keys for %d ed25519 verify keys", len(got), len(ids))
			}
			for _, id := range ids {
				if !bytes.Equal(got[KeyID(id)], r.verify[id]) {
					ctx.Fail("C12/checkkeys/key-map", "accepted, but the returned map has %x for %s, response has %x", []byte(got[KeyID(id)]), id, r.verify[id])
				}
			}
		}
	} else {
		ctx.Class("checkkeys/rejected")
		if got != nil {
			ctx.Fail("C12/checkkeys/keys-returned-on-rejection", "rejected, but a key map with %d entries was returned", len(got))
		}
		if want {
			if r.signed.Odd {
				ctx.Unjudged("signatures member with a non-base64 entry: library refuses the whole response")
			} else {
				ctx.Fail("C12/checkkeys/rejected-good-response", "CheckKeys(%q, now=%d) rejected a response that names the server, is valid until %d and is signed under every ed25519 key (%+v): %s",
					c.Server, nowMs, r.vu, checks, raw)
			}
		}
	}
	// observation, not judged: ServerKeys.PublicKey at the expired_ts boundary
	for id, o := range r.old {
		if _, isCurrent := r.verify[id]; isCurrent || o.expired == 0 {
			continue
		}
		if keys.PublicKey(KeyID(id), spec.Timestamp(o.expired)) != nil {
			vfNote("C12/observation: ServerKeys.PublicKey returns an old key AT its expired_ts (<=) whereas WasValidAt requires < (not on the VerifyJSONs path, not judged)", 1)
		}
	}
}

// c12Traced looks for the served response a result entry can have come from.
func c12Traced(served []c12KeyResp, pk c12PK, v c12PR) (from []c12KeyResp) {
	for _, r := range served {
		if r.malformed || r.name != string(pk.ServerName) {
			continue
		}
		// (a key ID that the same response also lists among its old keys is retired by that response:
		// only the expired form of it comes "from" this response)
		_, retired := r.old[string(pk.KeyID)]
		if k, ok := r.verify[string(pk.KeyID)]; ok && !retired && bytes.Equal(k, v.Key) && uint64(v.ValidUntilTS) == r.vu && v.ExpiredTS == 0 {
			from = append(from, r)
			continue
		}
		if o, ok := r.old[string(pk.KeyID)]; ok && bytes.Equal(o.key, v.Key) && v.ValidUntilTS == 0 && uint64(v.ExpiredTS) == o.expired {
			from = append(from, r)
		}
	}
	return
}

// c12ExpectMapped demands that every key of response r is in results with the documented mapping.
func c12ExpectMapped(ctx *vfCtx, sig string, r c12KeyResp, results map[c12PK]c12PR, skip map[c12PK]bool) {
	for id, k := range r.verify {
		pk := c12PK{ServerName: spec.ServerName(r.name), KeyID: KeyID(id)}
		if _, both := r.old[id]; both || skip[pk] {
			continue
		}
		v, ok := results[pk]
		if !ok || !bytes.Equal(v.Key, k) || uint64(v.ValidUntilTS) != r.vu || v.ExpiredTS != 0 {
			ctx.Fail(sig, "acceptable response for %q: verify key %s should map to key %x valid_until_ts %d; result has present=%v %x/%d/%d",
				r.name, id, k, r.vu, ok, []byte(v.Key), v.ValidUntilTS, v.ExpiredTS)
		}
	}
	for id, o := range r.old {
		pk := c12PK{ServerName: spec.ServerName(r.name), KeyID: KeyID(id)}
		if _, both := r.verify[id]; both || skip[pk] {
			continue
		}
		v, ok := results[pk]
		if !ok || !bytes.Equal(v.Key, o.key) || uint64(v.ExpiredTS) != o.expired || v.ValidUntilTS != 0 {
			ctx.Fail(sig, "acceptable response for %q: old key %s should map to key %x expired_ts %d; result has present=%v %x/%d/%d",
				r.name, id, o.key, o.expired, ok, []byte(v.Key), v.ValidUntilTS, v.ExpiredTS)
		}
	}
}

type c12Verdict struct {
	nameOK, signedAll, signedAny bool
	future, past                 bool // certainly in the future / certainly not (neither = within slack)
	odd, bare                    bool
}

func c12Judge(r c12KeyResp, nowLo, nowHi int64) c12Verdict {
	v := c12Verdict{nameOK: r.queried == "" || r.queried == r.name, odd: r.signed.Odd}
	v.signedAll, v.signedAny = r.selfSigned()
	_, v.bare = r.edKeys()
	v.future = int64(r.vu) > nowHi
	v.past = int64(r.vu) <= nowLo
	return v
}

func (v c12Verdict) acceptable() bool {
	return v.nameOK && v.signedAll && v.future && !v.odd && !v.bare
}

func c12Severity(sig string) int {
	switch {
	case strings.HasSuffix(sig, "/accepted-past-valid-until"):
		return 0
	case strings.HasSuffix(sig, "/accepted-partially-signed-response"):
		return 1
	case strings.HasSuffix(sig, "/accepted-without-notary-signature"):
		return 2
	case strings.HasSuffix(sig, "/accepted-unsigned-response"):
		return 3
	}
	return 4
}

// c12Sound judges one result entry of a fetcher against the responses served in the call.
func c12Sound(ctx *vfCtx, kind string, cl *c12Client, pk c12PK, v c12PR, nowLo, nowHi int64, extra func(c12KeyResp) string) {
	from := c12Traced(cl.served, pk, v)
	if len(from) == 0 {
		ctx.Fail("C12/fetcher/"+kind+"/result-not-from-any-response", "result %s/%s = %x/%d/%d does not occur in any response served during the call",
			pk.ServerName, pk.KeyID, []byte(v.Key), v.ValidUntilTS, v.ExpiredTS)
		return
	}
	// the entry is justified if at least one of the responses it can come from is acceptable
	worst := ""
	var culprit c12KeyResp
	for _, r := range from {
		jd := c12Judge(r, nowLo, nowHi)
		why := ""
		switch {
		case jd.bare:
			ctx.Unjudged("verify key ID without ':'")
			return
		case !jd.nameOK:
			why = "C12/fetcher/" + kind + "/accepted-wrong-name"
		case !jd.signedAny:
			why = "C12/fetcher/" + kind + "/accepted-unsigned-response"
		case !jd.signedAll:
			why = "C12/fetcher/" + kind + "/accepted-partially-signed-response"
		}
		if why == "" && extra != nil {
			why = extra(r)
		}
		if why == "" && jd.past {
			why = "C12/fetcher/accepted-past-valid-until"
		}
		if why == "" && !jd.future {
			ctx.Unjudged("valid_until_ts within clock slack of now")
			return
		}
		if why == "" {
			return // justified
		}
		// several served responses can contain the same entry (old keys carry no valid_until_ts):
		// report the mildest reason, i.e. the response the fetcher most plausibly accepted
		if worst == "" || c12Severity(why) < c12Severity(worst) {
			worst, culprit = why, r
		}
	}
	r := culprit
	ctx.Fail(worst, "%s fetcher returned %s/%s from a response that must not be accepted (server_name %q, queried %q, valid_until_ts %d, now %d): %s",
		kind, pk.ServerName, pk.KeyID, r.name, r.queried, r.vu, nowHi-c12Slack, r.raw)
}

func c12KDirect(ctx *vfCtx, c c12KCase) {
	now0 := time.Now().UnixMilli()
	cl := &c12Client{now: now0, direct: map[string]c12DirectScript{}}
	for _, d := range c.Direct {
		cl.direct[d.Server] = d
		if d.Resp != nil {
			c12KTag(ctx, "direct/", d.Resp.Tag)
		}
		for _, n := range d.Notary {
			c12KTag(ctx, "notary/", n.Tag)
		}
	}
	f := &DirectKeyFetcher{Client: cl, IsLocalServerName: func(spec.ServerName) bool { return false }}
	reqs := map[c12PK]spec.Timestamp{}
	servers := map[string]bool{}
	for _, r := range c.Requests {
		reqs[c12PK{ServerName: spec.ServerName(r.Server), KeyID: KeyID(r.KeyID)}] = spec.Timestamp(now0)
		servers[r.Server] = true
	}
	var results map[c12PK]c12PR
	var err error
	nowLo := time.Now().UnixMilli() - c12Slack
	if vfCatch(ctx, "C12", func() { results, err = f.FetchKeys(context.Background(), reqs) }) {
		return
	}
	nowHi := time.Now().UnixMilli() + c12Slack
	if err != nil {
		ctx.Class("direct/error")
		ctx.Unjudged("DirectKeyFetcher returned an error")
		return
	}
	if len(results) > 0 {
		ctx.NonTrivial()
		ctx.Class("direct/some-keys-returned")
	} else {
		ctx.Class("direct/nothing-returned")
	}
	for _, pk := range c12Keys(results) {
		c12Sound(ctx, "direct", cl, pk, results[pk], nowLo, nowHi, nil)
	}
	// completeness per queried server
	var names []string
	for s := range servers {
		names = append(names, s)
	}
	sort.Strings(names)
	for _, s := range names {
		sc, ok := cl.direct[s]
		if !ok {
			continue
		}
		var first *c12KeyResp
		if !sc.Err && sc.Resp != nil {
			raw := c12BuildResp(*sc.Resp, now0)
			var probe ServerKeys
			if json.Unmarshal(raw, &probe) == nil {
				r := c12ReadResp(raw)
				r.queried = s
				first = &r
			}
		}
		if first != nil {
			ctx.NonTrivial()
			if first.malformed {
				ctx.Unjudged("response malformed for the reference reader")
				continue
			}
			jd := c12Judge(*first, nowLo, nowHi)
			switch {
			case jd.acceptable():
				ctx.Class("direct/complete/direct-response-acceptable")
				c12ExpectMapped(ctx, "C12/fetcher/direct/good-response-dropped", *first, results, nil)
				continue
			case jd.bare:
				ctx.Unjudged("verify key ID without ':'")
				continue
			case jd.nameOK && jd.signedAll && jd.past:
				// known class: the tree accepts it (see known.d/C12.txt) and then never asks the notary
				ctx.Class("direct/past-valid-until(fallback unjudged)")
				ctx.Unjudged("direct response with valid_until_ts in the past: whether the notary fallback must be used is not judged")
				continue
			case jd.nameOK && jd.signedAll:
				// odd signatures member or valid_until_ts within clock slack
				ctx.Unjudged("direct response neither clearly acceptable nor clearly unacceptable")
				continue
			}
		}
		// the direct path fails: the notary path (the server's own /key/v2/query) decides
		if sc.NotaryErr {
			ctx.Class("direct/complete/both-paths-fail")
			continue
		}
		for _, n := range sc.Notary {
			raw := c12BuildResp(n, now0)
			r := c12ReadResp(raw)
			r.queried = s
			if r.malformed {
				ctx.Unjudged("response malformed for the reference reader")
				break
			}
			if r.name != s {
				continue
			}
			jd := c12Judge(r, nowLo, nowHi)
			if jd.acceptable() {
				ctx.NonTrivial()
				ctx.Class("direct/complete/notary-response-acceptable")
				c12ExpectMapped(ctx, "C12/fetcher/direct/good-notary-response-dropped", r, results, nil)
			}
			break // only the first response naming the server is looked at
		}
	}
}

func c12KPerspective(ctx *vfCtx, c c12KCase) {
	now0 := time.Now().UnixMilli()
	cl := &c12Client{now: now0, direct: map[string]c12DirectScript{}, perspective: c.Perspective, pErr: c.PerspectiveErr, pResp: c.PerspectiveResp}
	pkeys := map[KeyID]ed25519.PublicKey{}
	for _, k := range c.PerspectiveKeys {
		pkeys[KeyID(k.KeyID)] = ed25519.PublicKey(append([]byte(nil), k.Key...))
	}
	for _, r := range c.PerspectiveResp {
		c12KTag(ctx, "perspective/", r.Tag)
	}
	f := &PerspectiveKeyFetcher{PerspectiveServerName: spec.ServerName(c.Perspective), PerspectiveServerKeys: pkeys, Client: cl}
	reqs := map[c12PK]spec.Timestamp{}
	for _, r := range c.Requests {
		reqs[c12PK{ServerName: spec.ServerName(r.Server), KeyID: KeyID(r.KeyID)}] = spec.Timestamp(now0)
	}
	var results map[c12PK]c12PR
	var err error
	nowLo := time.Now().UnixMilli() - c12Slack
	if vfCatch(ctx, "C12", func() { results, err = f.FetchKeys(context.Background(), reqs) }) {
		return
	}
	nowHi := time.Now().UnixMilli() + c12Slack

	// notary signature: some signature of the perspective server under a configured key ID verifies
	notaryState := func(r c12KeyResp) (good, bad int) {
		for _, id := range r.signed.IDs[c.Perspective] {
			k, ok := pkeys[KeyID(id)]
			if !ok {
				continue
			}
			if r.signed.verifies(c.Perspective, id, k) {
				good++
			} else {
				bad++
			}
		}
		return
	}
	if err != nil {
		ctx.Class("perspective/error")
	} else {
		ctx.Class("perspective/answered")
		if len(results) > 0 {
			ctx.NonTrivial()
		}
		for _, pk := range c12Keys(results) {
			c12Sound(ctx, "perspective", cl, pk, results[pk], nowLo, nowHi, func(r c12KeyResp) string {
				if good, _ := notaryState(r); good == 0 {
					return "C12/fetcher/perspective/accepted-without-notary-signature"
				}
				return ""
			})
		}
	}
	// completeness: every served response acceptable => everything mapped
	if c.PerspectiveErr {
		return
	}
	allOK := len(c.PerspectiveResp) > 0
	var rs []c12KeyResp
	seen := map[c12PK]int{}
	for _, sp := range c.PerspectiveResp {
		raw := c12BuildResp(sp, now0)
		var probe ServerKeys
		if json.Unmarshal(raw, &probe) != nil {
			allOK = false
			break
		}
		r := c12ReadResp(raw)
		if r.malformed {
			allOK = false
			break
		}
		jd := c12Judge(r, nowLo, nowHi)
		good, bad := notaryState(r)
		if !jd.acceptable() || good == 0 || bad > 0 {
			allOK = false
		}
		for id := range r.verify {
			seen[c12PK{ServerName: spec.ServerName(r.name), KeyID: KeyID(id)}]++
		}
		for id := range r.old {
			seen[c12PK{ServerName: spec.ServerName(r.name), KeyID: KeyID(id)}]++
		}
		rs = append(rs, r)
	}
	if !allOK {
		ctx.Class("perspective/complete/not-all-acceptable(unjudged)")
		return
	}
	ctx.NonTrivial()
	ctx.Class("perspective/complete/all-acceptable")
	if err != nil {
		ctx.Fail("C12/fetcher/perspective/good-responses-rejected", "every response is signed by the notary and by the server it names with valid_until_ts in the future, but FetchKeys failed: %v", err)
		return
	}
	skip := map[c12PK]bool{}
	for pk, n := range seen {
		if n > 1 {
			skip[pk] = true
		}
	}
	for _, r := range rs {
		c12ExpectMapped(ctx, "C12/fetcher/perspective/good-response-dropped", r, results, skip)
	}
	// a key ID that several acceptable documents of one server name: in general it is not decided which
	// document speaks for it (skipped above). One class is decided: every earlier document lists it as a
	// current key and the LAST one retires it (old_verify_keys, same key) - the answer after a key
	// rotation. The retirement must not be lost: the result is the expired form.
	for pk, n := range seen {
		if n < 2 {
			continue
		}
		var roles []string
		var last c12KeyResp
		for _, r := range rs {
			if r.name != string(pk.ServerName) {
				continue
			}
			_, cur := r.verify[string(pk.KeyID)]
			_, old := r.old[string(pk.KeyID)]
			switch {
			case cur && old:
				roles = append(roles, "both")
			case cur:
				roles = append(roles, "current")
			case old:
				roles = append(roles, "retired")
			default:
				continue
			}
			last = r
		}
		decided := len(roles) >= 2 && roles[len(roles)-1] == "retired"
		for _, role := range roles[:max(0, len(roles)-1)] {
			decided = decided && role == "current"
		}
		if !decided {
			continue
		}
		ctx.Class("perspective/key-current-in-earlier-documents-retired-in-the-last")
		o := last.old[string(pk.KeyID)]
		v, ok := results[pk]
		if !ok || uint64(v.ExpiredTS) != o.expired || v.ValidUntilTS != 0 || !bytes.Equal(v.Key, o.key) {
			ctx.Fail("C12/fetcher/perspective/retirement-lost", "%s/%s is a current key in the earlier document(s) and retired (expired_ts %d) in the last one; result has present=%v valid_until_ts %d expired_ts %d", pk.ServerName, pk.KeyID, o.expired, ok, v.ValidUntilTS, v.ExpiredTS)
		}
	}
}

// ---- generator ----

var c12KServers = []string{"a.example", "b.example:8448", "notary.example"}

// c12GenResp draws a response specification for `asked` (pool index base = 3*server index).
func c12GenResp(t *rapid.T, asked string, base int, relTime bool, notary string, notaryPool int, label string) c12RespSpec {
	r := c12RespSpec{Name: asked}
	var tags []string
	if rapid.IntRange(0, 9).Draw(t, label+"_clean") < 4 {
		// a fully acceptable response: one or two signed keys, maybe an old key
		r.ValidUntil = c12Abs(1700000000000)
		if relTime {
			r.ValidUntil = c12Rel(rapid.SampledFrom([]int64{c12Minute, c12Hour, 30 * c12Day}).Draw(t, label+"_vu"))
		}
		nk := rapid.IntRange(1, 2).Draw(t, label+"_nverify")
		for i := 0; i < nk; i++ {
			id := []string{"ed25519:a", "ed25519:b"}[i]
			r.Verify = append(r.Verify, c12VK{KeyID: id, Key: c12Pub(base + i)})
			r.Sigs = append(r.Sigs, c12SigSpec{Signer: asked, KeyID: id, Pool: base + i})
		}
		if rapid.Bool().Draw(t, label+"_old") {
			r.Old = append(r.Old, c12OK{KeyID: "ed25519:old1", Key: c12Pub(base + 2), Expired: c12Abs(1600000000000)})
		}
		if notary != "" {
			r.Sigs = append(r.Sigs, c12SigSpec{Signer: notary, KeyID: "ed25519:n", Pool: notaryPool})
		}
		r.Spaced = rapid.Bool().Draw(t, label+"_spaced")
		r.Tag = "resp/good"
		return r
	}
	if rapid.IntRange(0, 9).Draw(t, label+"_wrongName") == 0 {
		r.Name = rapid.SampledFrom([]string{"evil.example", "a.example", "b.example:8448", ""}).Draw(t, label+"_name")
		if r.Name != asked {
			tags = append(tags, "other-name")
		}
	}
	if relTime {
		switch rapid.IntRange(0, 9).Draw(t, label+"_vuKind") {
		case 0:
			r.ValidUntil = c12Rel(rapid.SampledFrom([]int64{-c12Minute, -c12Day}).Draw(t, label+"_vu"))
			tags = append(tags, "valid-until-past")
		case 1:
			r.ValidUntil = c12Abs(rapid.SampledFrom([]int64{0, 1, 1600000000000}).Draw(t, label+"_vu"))
			tags = append(tags, "valid-until-past")
		default:
			r.ValidUntil = c12Rel(rapid.SampledFrom([]int64{c12Minute, c12Hour, 30 * c12Day}).Draw(t, label+"_vu"))
		}
	} else {
		r.ValidUntil = c12Abs(rapid.SampledFrom([]int64{2, 1000, 1700000000000, 1700000000001}).Draw(t, label+"_vu"))
	}
	nk := rapid.SampledFrom([]int{0, 1, 1, 1, 2, 2}).Draw(t, label+"_nverify")
	if nk == 0 {
		tags = append(tags, "no-ed25519-key")
	}
	for i := 0; i < nk; i++ {
		id := []string{"ed25519:a", "ed25519:b"}[i]
		pool := base + i
		key := c12Pub(pool)
		sigKind := rapid.SampledFrom([]string{"good", "good", "good", "good", "good", "good", "good", "missing", "corrupt", "other-key", "other-signer", "junk"}).Draw(t, label+"_sig")
		if rapid.IntRange(0, 14).Draw(t, label+"_badLen") == 0 {
			key = rapid.SampledFrom([][]byte{key[:31], append(append([]byte(nil), key...), 1), {}}).Draw(t, label+"_len")
			tags = append(tags, "verify-key-wrong-length")
		}
		r.Verify = append(r.Verify, c12VK{KeyID: id, Key: key})
		switch sigKind {
		case "good":
			r.Sigs = append(r.Sigs, c12SigSpec{Signer: r.Name, KeyID: id, Pool: pool})
		case "missing":
		case "corrupt":
			r.Sigs = append(r.Sigs, c12SigSpec{Signer: r.Name, KeyID: id, Pool: pool, Corrupt: true})
		case "other-key":
			r.Sigs = append(r.Sigs, c12SigSpec{Signer: r.Name, KeyID: id, Pool: 11})
		case "other-signer":
			r.Sigs = append(r.Sigs, c12SigSpec{Signer: "evil.example", KeyID: id, Pool: pool})
		case "junk":
			r.Sigs = append(r.Sigs, c12SigSpec{Signer: r.Name, KeyID: id, Pool: pool, Junk: true})
		}
		if sigKind != "good" {
			tags = append(tags, "self-sig-"+sigKind)
		}
	}
	if rapid.IntRange(0, 4).Draw(t, label+"_rsa") == 0 {
		r.Verify = append(r.Verify, c12VK{KeyID: "rsa:1", Key: []byte("not an ed25519 key")})
		tags = append(tags, "plus-non-ed25519-key")
	}
	no := rapid.SampledFrom([]int{0, 0, 1, 1, 2}).Draw(t, label+"_nold")
	for i := 0; i < no; i++ {
		key := c12Pub(base + 2)
		if rapid.IntRange(0, 5).Draw(t, label+"_oldBadLen") == 0 {
			key = key[:rapid.SampledFrom([]int{0, 16, 31}).Draw(t, label+"_oldLen")]
			tags = append(tags, "old-key-wrong-length")
		}
		exp := rapid.SampledFrom([]c12TS{c12Abs(1600000000000), c12Abs(1000), c12Abs(1)}).Draw(t, label+"_oldExp")
		oldID := []string{"ed25519:old1", "ed25519:old2"}[i]
		if nk > 0 && i == 0 && rapid.IntRange(0, 5).Draw(t, label+"_oldIsCurrent") == 0 {
			// the response retires a key ID that it also lists as current (same key material)
			oldID, key = "ed25519:a", c12Pub(base)
			tags = append(tags, "old-key-id-also-current")
		}
		r.Old = append(r.Old, c12OK{KeyID: oldID, Key: key, Expired: exp})
	}
	if notary != "" {
		nk := rapid.SampledFrom([]string{"good", "good", "good", "good", "good", "good", "missing", "corrupt", "unknown-id", "other-key"}).Draw(t, label+"_notarySig")
		switch nk {
		case "good":
			r.Sigs = append(r.Sigs, c12SigSpec{Signer: notary, KeyID: "ed25519:n", Pool: notaryPool})
		case "corrupt":
			r.Sigs = append(r.Sigs, c12SigSpec{Signer: notary, KeyID: "ed25519:n", Pool: notaryPool, Corrupt: true})
		case "unknown-id":
			r.Sigs = append(r.Sigs, c12SigSpec{Signer: notary, KeyID: "ed25519:unknown", Pool: notaryPool})
		case "other-key":
			r.Sigs = append(r.Sigs, c12SigSpec{Signer: notary, KeyID: "ed25519:n", Pool: 11})
		}
		if nk != "good" {
			tags = append(tags, "notary-sig-"+nk)
		}
	}
	r.Spaced = rapid.IntRange(0, 3).Draw(t, label+"_spaced") == 0
	sort.Strings(tags)
	r.Tag = "resp/" + strings.Join(tags, "+")
	if len(tags) == 0 {
		r.Tag = "resp/good"
	}
	return r
}

func c12KGen(t *rapid.T) c12KCase {
	mode := rapid.SampledFrom([]string{"checkkeys", "checkkeys", "direct", "direct", "perspective"}).Draw(t, "mode")
	c := c12KCase{Mode: mode}
	switch mode {
	case "checkkeys":
		r := c12GenResp(t, "a.example", 0, false, "", 0, "r")
		c.Resp = &r
		c.Server = "a.example"
		if rapid.IntRange(0, 9).Draw(t, "argOther") == 0 {
			c.Server = rapid.SampledFrom([]string{"b.example:8448", "A.example", ""}).Draw(t, "arg")
		}
		c.Now = r.ValidUntil.plus(rapid.SampledFrom([]int64{-1, -1, -1000, -1, 0, 1, 1000, -1700000000}).Draw(t, "nowDelta"))
		if c.Now.V < 0 {
			c.Now.V = 0
		}
	case "direct":
		ns := rapid.IntRange(1, 2).Draw(t, "nservers")
		for si := 0; si < ns; si++ {
			s := c12KServers[si]
			c.Requests = append(c.Requests, c12KeyReq{Server: s, KeyID: "ed25519:a"})
			if rapid.Bool().Draw(t, "secondKey") {
				c.Requests = append(c.Requests, c12KeyReq{Server: s, KeyID: "ed25519:old1"})
			}
			d := c12DirectScript{Server: s}
			switch rapid.IntRange(0, 4).Draw(t, "directKind") {
			case 0:
				d.Err = true
			default:
				r := c12GenResp(t, s, 3*si, true, "", 0, "d")
				d.Resp = &r
			}
			switch rapid.IntRange(0, 3).Draw(t, "notaryKind") {
			case 0:
				d.NotaryErr = true
			default:
				nn := rapid.IntRange(0, 2).Draw(t, "nnotary")
				for i := 0; i < nn; i++ {
					name := s
					if rapid.IntRange(0, 3).Draw(t, "notaryOther") == 0 {
						name = c12KServers[(si+1)%2]
					}
					d.Notary = append(d.Notary, c12GenResp(t, name, 3*si, true, "", 0, "n"))
				}
			}
			c.Direct = append(c.Direct, d)
		}
	case "perspective":
		c.Perspective = "notary.example"
		c.PerspectiveKeys = []c12VK{{KeyID: "ed25519:n", Key: c12Pub(8)}}
		if rapid.IntRange(0, 3).Draw(t, "secondNotaryKey") == 0 {
			c.PerspectiveKeys = append(c.PerspectiveKeys, c12VK{KeyID: "ed25519:n2", Key: c12Pub(7)})
		}
		c.PerspectiveErr = rapid.IntRange(0, 9).Draw(t, "perr") == 0
		nr := rapid.SampledFrom([]int{0, 1, 1, 1, 2, 2, 3}).Draw(t, "nresp")
		for i := 0; i < nr; i++ {
			// (server 2 is the notary itself: its own keys looked up through it, self-signed under one
			// key ID and notary-signed under the pinned one — both signatures carry the same name)
			si := rapid.SampledFrom([]int{0, 0, 1, 1, 2}).Draw(t, "respServer")
			c.PerspectiveResp = append(c.PerspectiveResp, c12GenResp(t, c12KServers[si], 3*si, true, c.Perspective, 8, "p"))
		}
		if rapid.IntRange(0, 5).Draw(t, "rotation") == 0 {
			// a key rotation seen through the notary: the document from before the rotation (key a
			// current, still within its validity) followed by the one after it (key a retired, key b current)
			si := rapid.IntRange(0, 1).Draw(t, "rotServer")
			name, base := c12KServers[si], 3*si
			exp := c12Rel(-rapid.SampledFrom([]int64{c12Minute, c12Hour, c12Day}).Draw(t, "rotExpired"))
			before := c12RespSpec{Name: name, ValidUntil: c12Rel(c12Hour), Tag: "rotation-before",
				Verify: []c12VK{{KeyID: "ed25519:a", Key: c12Pub(base)}},
				Sigs:   []c12SigSpec{{Signer: name, KeyID: "ed25519:a", Pool: base}, {Signer: c.Perspective, KeyID: "ed25519:n", Pool: 8}}}
			after := c12RespSpec{Name: name, ValidUntil: c12Rel(30 * c12Day), Tag: "rotation-after",
				Verify: []c12VK{{KeyID: "ed25519:b", Key: c12Pub(base + 1)}},
				Old:    []c12OK{{KeyID: "ed25519:a", Key: c12Pub(base), Expired: exp}},
				Sigs:   []c12SigSpec{{Signer: name, KeyID: "ed25519:b", Pool: base + 1}, {Signer: c.Perspective, KeyID: "ed25519:n", Pool: 8}}}
			c.PerspectiveResp = []c12RespSpec{before, after}
			c.PerspectiveErr = false
		}
		for si := 0; si < 3; si++ {
			c.Requests = append(c.Requests, c12KeyReq{Server: c12KServers[si], KeyID: "ed25519:a"})
		}
	}
	return c
}

func init() {
	rule := "non-trivial = CheckKeys case with a decodable response (all of them); fetcher case in which the scripted client served at least one decodable key response that the fetcher had to accept or refuse (keys returned, or a direct/notary/perspective response was judged for completeness). distinct = distinct Case JSON."
	vfRapid("C12/checkkeys", rule, 5000, 200000, 16, c12KGen, c12KCheck)
}
