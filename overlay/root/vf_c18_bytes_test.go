//go:build verif

// C18/json, C18/sign, C18/keys — byte strings into the JSON, signature and key-response entry points.
package gomatrixserverlib

import (
	"context"
	"crypto/ed25519"
	"encoding/base64"
	"encoding/json"
	"fmt"
	"strings"
	"time"

	"github.com/matrix-org/gomatrixserverlib/spec"
	"github.com/tidwall/gjson"
	"pgregory.net/rapid"
)

// ---------------------------------------------------------------------------------------------
// C18/json

type c18JSONCase struct {
	Text     vfBytes  `json:"text"`
	Versions []string `json:"versions,omitempty"`
}

func c18JSONCheck(ctx *vfCtx, c c18JSONCase) {
	s := c18NewState(ctx, "C18")
	text := []byte(c.Text)
	var err error
	s.call("CanonicalJSON", func() { _, err = CanonicalJSON(c18Copy(text)) })
	if err == nil {
		ctx.Class("canonical/accepted")
		ctx.NonTrivial()
	} else {
		ctx.Class("canonical/rejected")
	}
	for _, v := range c.Versions {
		impl, verr := GetRoomVersion(RoomVersion(v))
		if verr != nil {
			continue
		}
		s.call("EnforcedCanonicalJSON", func() { _, _ = EnforcedCanonicalJSON(c18Copy(text), RoomVersion(v)) })
		// the parsers run this on the raw bytes before anything validated them
		s.call("CheckCanonicalJSON", func() { _ = impl.CheckCanonicalJSON(c18Copy(text)) })
	}
	s.call("verifyEnforcedCanonicalJSON", func() { _ = verifyEnforcedCanonicalJSON(c18Copy(text)) })
	// CompactJSON / SortJSON / CanonicalJSONAssumeValid demand valid JSON: behind the library's own gate.
	if gjson.Valid(string(text)) {
		ctx.Class("gjson-valid")
		var compact []byte
		s.call("CompactJSON", func() { compact = CompactJSON(c18Copy(text), nil) })
		s.call("SortJSON", func() { _ = SortJSON(c18Copy(text), nil) })
		s.call("SortJSON/compacted", func() { _ = SortJSON(compact, nil) })
		s.call("CanonicalJSONAssumeValid", func() { _ = CanonicalJSONAssumeValid(c18Copy(text)) })
	}
	// the same bytes as a message to sign / verify / list
	s.call("ListKeyIDs", func() { _, _ = ListKeyIDs("a.example", c18Copy(text)) })
	pub, priv := vfKeyFor("origin:a.example")
	s.call("VerifyJSON", func() { _ = VerifyJSON("a.example", "ed25519:1", pub, c18Copy(text)) })
	s.call("SignJSON", func() { _, _ = SignJSON("a.example", "ed25519:1", priv, c18Copy(text)) })
}

var c18JSONHostile = []string{
	`"\ud800"`, `"\udc00"`, `"\ud800A"`, `"\ud800\ud800"`, `"😀"`, `"\uD83D"`, `["\ud800"]`, `{"\ud800":"\udfff"}`, `"\ud800\\"`, `"\ud800\n"`, `"a\ud800`, `"\ud800`, `"\ud8`, `"\u`,
	`"\`, `"`, `"\u000`, `"\u0000"`, `"\u001f\u007f"`, `"\/"`, `"\\\""`, `-0`, `[-0]`, `-0.5`, `-`, `1e-05`, `[1e400]`, `1e400`, `-0e0`, `[0.0,-0.0,0e0,1E2]`, `9007199254740992`,
	`{"a\"b":1}`, `{"":{"":{"":[]}}}`, `{"a":1,"a":2}`, `{"b":1,"a":[-0,"é\/"]}`, `{`, `}`, `[`, `]`, `[[[[[[[[[[[[[[[[[[[[[[[[[[[[[[[[`, `{"a":`, `{"a"`, `{"a":}`, `[,]`, `[1,]`, `nul`, `tru`, ``, ` `, "\x00",
	"\xff\xfe", `"` + "\xff" + `"`, "\xef\xbb\xbf{}", `{"signatures":{"a.example":{"ed25519:1":"AAAA"}}}`, `{"signatures":5}`, `{"signatures":{"a.example":5}}`, `{"signatures":{"a.example":{"ed25519:1":5}}}`,
	`{"unsigned":5,"signatures":null}`, `[1,2]`, `"x"`, `5`, `null`, `{"signatures":{"a.example":{"":""}},"unsigned":{}}`,
}

func c18GenJSON(t *rapid.T) c18JSONCase {
	var text []byte
	switch rapid.IntRange(0, 5).Draw(t, "mode") {
	case 0:
		text = []byte(rapid.SampledFrom(c18JSONHostile).Draw(t, "hostile"))
	case 1, 2:
		o := jgenOpts{MaxDepth: rapid.IntRange(1, 4).Draw(t, "depth"), MaxWidth: rapid.IntRange(1, 5).Draw(t, "width"), IntsOnly: rapid.Bool().Draw(t, "ints")}
		v := jgenValue(t, o, 0, "v")
		switch rapid.IntRange(0, 9).Draw(t, "shape") {
		case 0:
			v = jgenWide(t, v, "wide") // 100..300 siblings
		case 1:
			// deep nesting: 1..2000 containers
			for i, d := 0, rapid.SampledFrom([]int{10, 64, 65, 100, 128, 500, 2000}).Draw(t, "deep"); i < d; i++ {
				if i%3 == 0 {
					v = jobj("k", v)
				} else {
					v = jarr(v)
				}
			}
		}
		text = []byte(jspell(t, v, "p"))
	default:
		o := jgenOpts{MaxDepth: 3, MaxWidth: 3}
		text = []byte(jspell(t, jgenValue(t, o, 0, "v"), "p"))
		text = c18MutateBytes(t, text, rapid.IntRange(1, 3).Draw(t, "nmut"))
	}
	c := c18JSONCase{Text: text}
	for i, n := 0, rapid.IntRange(1, 2).Draw(t, "nver"); i < n; i++ {
		c.Versions = append(c.Versions, evGenVersion(t))
	}
	return c
}

var c18ByteAlphabet = []byte("{}[]\"\\:,-01.eEua tn9/_$!@\x00\xff")

func c18MutateBytes(t *rapid.T, text []byte, n int) []byte {
	text = c18Copy(text)
	for i := 0; i < n && len(text) > 0; i++ {
		pos := rapid.IntRange(0, len(text)-1).Draw(t, "pos")
		switch rapid.IntRange(0, 7).Draw(t, "mut") {
		case 0:
			text = text[:pos]
		case 1:
			text = append(text[:pos:pos], text[pos+1:]...)
		case 2:
			b := rapid.SampledFrom(c18ByteAlphabet).Draw(t, "ins")
			text = append(text[:pos:pos], append([]byte{b}, text[pos:]...)...)
		case 3:
			text[pos] = rapid.SampledFrom(c18ByteAlphabet).Draw(t, "sub")
		case 4:
			esc := rapid.SampledFrom([]string{`\ud800`, `\udc00`, `\ud800A`, `\uD83D`, `\u12`, `\x41`, `\u00zz`, `\u`, `\`, `\ud800\`, `\ud800\u`, `\ud800\u12`}).Draw(t, "esc")
			text = append(text[:pos:pos], append([]byte(esc), text[pos:]...)...)
		case 5:
			text = append(text, rapid.SampledFrom([]string{",", "]", "}", " x", "1", "\"\"", "\\", "\"\\ud800"}).Draw(t, "trail")...)
		case 6:
			// cut a window
			end := rapid.IntRange(pos, len(text)).Draw(t, "end")
			text = append(text[:pos:pos], text[end:]...)
		default:
			// duplicate a window
			end := rapid.IntRange(pos, len(text)).Draw(t, "end")
			text = append(text[:end:end], append(c18Copy(text[pos:end]), text[end:]...)...)
		}
	}
	return text
}

// ---------------------------------------------------------------------------------------------
// C18/sign

type c18SignCase struct {
	Name    string  `json:"name"`
	KeyID   string  `json:"key_id"`
	Key     vfBytes `json:"key"` // public key bytes as received (any length)
	Message vfBytes `json:"message"`
}

func c18SignCheck(ctx *vfCtx, c c18SignCase) {
	s := c18NewState(ctx, "C18")
	msg := []byte(c.Message)
	var verr, lerr, serr error
	var ids []KeyID
	var signed []byte
	s.call("VerifyJSON", func() { verr = VerifyJSON(c.Name, KeyID(c.KeyID), ed25519.PublicKey(c.Key), c18Copy(msg)) })
	s.call("ListKeyIDs", func() { ids, lerr = ListKeyIDs(c.Name, c18Copy(msg)) })
	if lerr == nil {
		ctx.NonTrivial()
		ctx.Class("message/object")
	} else {
		ctx.Class("message/not-an-object")
	}
	if verr == nil {
		ctx.Class("verify/ok")
	}
	ctx.Class(fmt.Sprintf("keylen/%d", c18Bucket(len(c.Key))))
	for _, id := range ids {
		s.call("VerifyJSON/listed-id", func() { _ = VerifyJSON(c.Name, id, ed25519.PublicKey(c.Key), c18Copy(msg)) })
	}
	_, priv := vfKeyFor("c18:local")
	pub := priv.Public().(ed25519.PublicKey)
	s.call("SignJSON", func() { signed, serr = SignJSON(c.Name, KeyID(c.KeyID), priv, c18Copy(msg)) })
	if serr == nil && signed != nil {
		ctx.Class("sign/ok")
		s.call("VerifyJSON/own-signature", func() { _ = VerifyJSON(c.Name, KeyID(c.KeyID), pub, signed) })
		s.call("SignJSON/again", func() { _, _ = SignJSON("other.example", "ed25519:2", priv, signed) })
	}
	// pseudo-ID verifier: the "server name" is the key
	s.call("JSONVerifierSelf.VerifyJSONs", func() {
		_, _ = JSONVerifierSelf{}.VerifyJSONs(context.Background(), []VerifyJSONRequest{
			{ServerName: spec.ServerName(c.Name), Message: c18Copy(msg), AtTS: 5, ValidityCheckingFunc: NoStrictValidityCheck},
			{ServerName: spec.ServerName(base64.RawURLEncoding.EncodeToString(c.Key)), Message: c18Copy(msg), AtTS: 5, ValidityCheckingFunc: StrictValiditySignatureCheck},
		})
	})
	// key ring with a fetcher that hands out the received key
	ring := KeyRing{KeyDatabase: c18KeyDB{}, KeyFetchers: []KeyFetcher{c18Fetcher{name: c.Name, keyID: c.KeyID, key: c18Copy(c.Key)}}}
	s.call("KeyRing.VerifyJSONs", func() {
		_, _ = ring.VerifyJSONs(context.Background(), []VerifyJSONRequest{
			{ServerName: spec.ServerName(c.Name), Message: c18Copy(msg), AtTS: 1000, ValidityCheckingFunc: StrictValiditySignatureCheck},
			{ServerName: spec.ServerName(c.Name), Message: c18Copy(msg), AtTS: 1000, ValidityCheckingFunc: NoStrictValidityCheck},
		})
	})
}

func c18Bucket(n int) int {
	switch {
	case n == 0, n == 31, n == 32, n == 33, n == 64:
		return n
	case n < 31:
		return 1
	default:
		return 99
	}
}

type c18KeyDB struct{}

func (c18KeyDB) FetcherName() string { return "c18db" }
func (c18KeyDB) FetchKeys(ctx context.Context, requests map[PublicKeyLookupRequest]spec.Timestamp) (map[PublicKeyLookupRequest]PublicKeyLookupResult, error) {
	return map[PublicKeyLookupRequest]PublicKeyLookupResult{}, nil
}
func (c18KeyDB) StoreKeys(ctx context.Context, results map[PublicKeyLookupRequest]PublicKeyLookupResult) error {
	return nil
}

// c18Fetcher answers every request for its server with the key as received, or with a prepared map.
type c18Fetcher struct {
	name, keyID string
	key         []byte
	results     map[PublicKeyLookupRequest]PublicKeyLookupResult
	origin      bool // serve the reference signer's key of whatever server is asked for
}

func (f c18Fetcher) FetcherName() string { return "c18fetcher" }
func (f c18Fetcher) FetchKeys(ctx context.Context, requests map[PublicKeyLookupRequest]spec.Timestamp) (map[PublicKeyLookupRequest]PublicKeyLookupResult, error) {
	out := map[PublicKeyLookupRequest]PublicKeyLookupResult{}
	for req := range requests {
		if f.origin {
			pub, _ := vfKeyFor("origin:" + string(req.ServerName))
			out[req] = PublicKeyLookupResult{VerifyKey: VerifyKey{Key: spec.Base64Bytes(pub)}, ValidUntilTS: spec.Timestamp(1) << 50}
			continue
		}
		if f.results != nil {
			if r, ok := f.results[req]; ok {
				out[req] = r
			}
			continue
		}
		if string(req.ServerName) == f.name {
			out[req] = PublicKeyLookupResult{VerifyKey: VerifyKey{Key: spec.Base64Bytes(f.key)}, ValidUntilTS: spec.Timestamp(1) << 50}
		}
	}
	return out, nil
}

func c18GenSign(t *rapid.T) c18SignCase {
	name := rapid.SampledFrom([]string{"a.example", "b.example:8448", "", "x", "[::1]", "a.example\x00", c18PseudoKey("bob")}).Draw(t, "name")
	keyID := rapid.SampledFrom([]string{"ed25519:1", "ed25519:auto", "ed25519:", "ed25519", "", "rsa:1", ":", "ed25519:1:2", "\x00"}).Draw(t, "keyID")
	label := rapid.SampledFrom([]string{"origin:a.example", "k2", "pseudo:bob"}).Draw(t, "keyLabel")
	pub, priv := vfKeyFor(label)
	c := c18SignCase{Name: name, KeyID: keyID}
	switch rapid.IntRange(0, 9).Draw(t, "keyShape") {
	case 0:
		c.Key = nil
	case 1:
		c.Key = vfBytes(pub[:31])
	case 2:
		c.Key = append(vfBytes(pub), 0)
	case 3:
		c.Key = vfBytes(priv) // 64 bytes
	case 4:
		c.Key = vfBytes(pub[:rapid.IntRange(0, 31).Draw(t, "keyLen")])
	case 5:
		c.Key = make(vfBytes, 32)
	default:
		c.Key = vfBytes(pub)
	}
	o := jgenOpts{MaxDepth: 2, MaxWidth: 3, IntsOnly: rapid.Bool().Draw(t, "ints")}
	obj := jgenObject(t, o, 0, "obj")
	// signatures member
	sigRaw := ed25519.Sign(priv, []byte(jcanon(obj.without("signatures", "unsigned"))))
	good := base64.RawStdEncoding.EncodeToString(sigRaw)
	var sigv jv
	switch rapid.IntRange(0, 11).Draw(t, "sigShape") {
	case 0, 1, 2, 3:
		sigv = jstr(good)
	case 4:
		sigv = jstr(good[:rapid.IntRange(0, len(good)-1).Draw(t, "sigCut")])
	case 5:
		sigv = jstr(good + "AAAA")
	case 6:
		sigv = jstr(base64.StdEncoding.EncodeToString(sigRaw)) // padded
	case 7:
		sigv = jstr(base64.RawURLEncoding.EncodeToString(sigRaw))
	case 8:
		sigv = rapid.SampledFrom(c18HostileScalars()).Draw(t, "sigScalar")
	case 9:
		sigv = rapid.SampledFrom(c18HostileContainers()).Draw(t, "sigCont")
	case 10:
		sigv = jstr("")
	default:
		sigv = jstr("!!!" + good)
	}
	switch rapid.IntRange(0, 9).Draw(t, "blockShape") {
	case 0:
		// no signatures at all
	case 1:
		obj = obj.with("signatures", rapid.SampledFrom(c18SignaturesValues()).Draw(t, "block"))
	case 2:
		obj = obj.with("signatures", jobj(name, sigv))
	case 3:
		obj = obj.with("signatures", jobj(name, jobj(keyID, sigv), "other.example", jobj("ed25519:1", jnum(5))))
	default:
		obj = obj.with("signatures", jobj(name, jobj(keyID, sigv)))
	}
	if rapid.IntRange(0, 3).Draw(t, "unsigned") == 0 {
		obj = obj.with("unsigned", rapid.SampledFrom([]jv{jobj("a", jnum(1)), {K: 'n'}, jstr("x"), jarr(), jobj()}).Draw(t, "unsignedV"))
	}
	text := []byte(jplain(obj))
	switch rapid.IntRange(0, 9).Draw(t, "textMode") {
	case 0:
		text = c18MutateBytes(t, text, 1)
	case 1:
		text = []byte(jspell(t, obj, "spell"))
	case 2:
		text = []byte(rapid.SampledFrom(c18JSONHostile).Draw(t, "hostileText"))
	}
	c.Message = text
	return c
}

// ---------------------------------------------------------------------------------------------
// C18/keys

type c18KeysCase struct {
	ServerName string  `json:"server_name"`
	Body       vfBytes `json:"body"` // a /_matrix/key/v2/server response
	KeyID      string  `json:"key_id"`
	TS         int64   `json:"ts"`
}

type c18KeyClient struct {
	keys ServerKeys
	all  []ServerKeys
	err  error
}

func (c c18KeyClient) GetServerKeys(ctx context.Context, matrixServer spec.ServerName) (ServerKeys, error) {
	return c.keys, c.err
}
func (c c18KeyClient) LookupServerKeys(ctx context.Context, matrixServer spec.ServerName, keyRequests map[PublicKeyLookupRequest]spec.Timestamp) ([]ServerKeys, error) {
	return c.all, c.err
}

var c18KeysNow = time.UnixMilli(1700000000000)

func c18KeysCheck(ctx *vfCtx, c c18KeysCase) {
	s := c18NewState(ctx, "C18")
	var keys ServerKeys
	var err error
	if s.call("ServerKeys.UnmarshalJSON", func() { err = json.Unmarshal(c18Copy(c.Body), &keys) }) {
		return
	}
	if err != nil {
		ctx.Class("unmarshal/rejected")
		return
	}
	ctx.Class("unmarshal/accepted")
	ctx.NonTrivial()
	name := spec.ServerName(c.ServerName)
	var checks KeyChecks
	s.call("CheckKeys", func() { checks, _ = CheckKeys(name, c18KeysNow, keys) })
	s.call("CheckKeys/own-name", func() { _, _ = CheckKeys(keys.ServerName, time.Unix(0, 0), keys) })
	if checks.AllChecksOK {
		ctx.Class("checks/all-ok")
	}
	s.call("ServerKeys.PublicKey", func() { _ = keys.PublicKey(KeyID(c.KeyID), spec.Timestamp(c.TS)) })
	s.call("ServerKeys.MarshalJSON", func() { _, _ = json.Marshal(keys) })
	results := map[PublicKeyLookupRequest]PublicKeyLookupResult{}
	s.call("mapServerKeysToPublicKeyLookupResult", func() { mapServerKeysToPublicKeyLookupResult(keys, results) })
	for req, res := range results {
		s.call("PublicKeyLookupResult.WasValidAt", func() {
			_ = res.WasValidAt(spec.Timestamp(c.TS), StrictValiditySignatureCheck)
			_ = res.WasValidAt(spec.Timestamp(c.TS), NoStrictValidityCheck)
			_, _ = req.MarshalText()
		})
	}
	client := c18KeyClient{keys: keys, all: []ServerKeys{keys}}
	d := &DirectKeyFetcher{Client: client, IsLocalServerName: func(spec.ServerName) bool { return false }}
	s.call("DirectKeyFetcher.fetchKeysForServer", func() { _, _ = d.fetchKeysForServer(context.Background(), name) })
	s.call("DirectKeyFetcher.fetchNotaryKeysForServer", func() { _, _ = d.fetchNotaryKeysForServer(context.Background(), name) })
	ppub, _ := vfKeyFor("origin:notary.example")
	p := &PerspectiveKeyFetcher{PerspectiveServerName: "notary.example", PerspectiveServerKeys: map[KeyID]ed25519.PublicKey{"ed25519:1": ppub}, Client: client}
	s.call("PerspectiveKeyFetcher.FetchKeys", func() {
		_, _ = p.FetchKeys(context.Background(), map[PublicKeyLookupRequest]spec.Timestamp{{ServerName: name, KeyID: KeyID(c.KeyID)}: spec.Timestamp(c.TS)})
	})
	// the key response itself is a signed object: verify it through a ring fed with its own keys
	ring := KeyRing{KeyDatabase: c18KeyDB{}, KeyFetchers: []KeyFetcher{c18Fetcher{results: results}}}
	s.call("KeyRing.VerifyJSONs", func() {
		_, _ = ring.VerifyJSONs(context.Background(), []VerifyJSONRequest{
			{ServerName: name, Message: c18Copy(c.Body), AtTS: spec.Timestamp(c.TS), ValidityCheckingFunc: StrictValiditySignatureCheck},
			{ServerName: keys.ServerName, Message: c18Copy(c.Body), AtTS: spec.Timestamp(c.TS), ValidityCheckingFunc: NoStrictValidityCheck},
		})
	})
	// lookup-request keys are parsed from text in notary requests
	var req PublicKeyLookupRequest
	s.call("PublicKeyLookupRequest.UnmarshalText", func() {
		_ = req.UnmarshalText([]byte(c.ServerName + "/" + c.KeyID))
		_ = req.UnmarshalText([]byte(c.KeyID))
	})
}

func c18GenKeys(t *rapid.T) c18KeysCase {
	name := rapid.SampledFrom([]string{"a.example", "b.example:8448", "", "x"}).Draw(t, "name")
	c := c18KeysCase{ServerName: name, KeyID: rapid.SampledFrom([]string{"ed25519:1", "ed25519:old", "", "rsa:1"}).Draw(t, "keyID")}
	c.TS = rapid.SampledFrom([]int64{0, 1, 1000, 1700000000000, 1 << 53, -1, 1<<63 - 1}).Draw(t, "ts")
	pub, priv := vfKeyFor("origin:a.example")
	keyv := func(label string) jv {
		switch rapid.IntRange(0, 9).Draw(t, label) {
		case 0:
			return jstr("")
		case 1:
			return jstr(base64.RawStdEncoding.EncodeToString(pub[:31]))
		case 2:
			return jstr(base64.RawStdEncoding.EncodeToString(append(c18Copy(pub), 1)))
		case 3:
			return jstr("!!!")
		case 4:
			return rapid.SampledFrom(c18HostileScalars()).Draw(t, label+"_s")
		case 5:
			return jstr(base64.StdEncoding.EncodeToString(pub))
		default:
			return jstr(base64.RawStdEncoding.EncodeToString(pub))
		}
	}
	vk := jobj("ed25519:1", jobj("key", keyv("k1")))
	if rapid.Bool().Draw(t, "twoKeys") {
		vk = vk.with(rapid.SampledFrom([]string{"ed25519:2", "rsa:1", "", "ed25519", ":"}).Draw(t, "k2id"), jobj("key", keyv("k2")))
	}
	obj := jobj("server_name", jstr(rapid.SampledFrom([]string{name, name, "a.example", ""}).Draw(t, "claimed")),
		"valid_until_ts", rapid.SampledFrom([]jv{jnum(1800000000000), jnum(0), jnum(1), jnum(1 << 53), {K: '#', S: "18446744073709551615"}, {K: '#', S: "-1"}, {K: '#', S: "1.5"}, jstr("1"), {K: 'n'}}).Draw(t, "valid"),
		"verify_keys", vk)
	if rapid.Bool().Draw(t, "old") {
		obj = obj.with("old_verify_keys", jobj("ed25519:old", jobj("key", keyv("ko"), "expired_ts", rapid.SampledFrom([]jv{jnum(1000), jnum(0), {K: '#', S: "-5"}, jstr("x"), {K: 'n'}}).Draw(t, "expired"))))
	}
	if rapid.IntRange(0, 2).Draw(t, "mutate") == 0 {
		obj = c18Mutate(t, obj, false, 0)
	}
	if obj.K == 'o' {
		sig := base64.RawStdEncoding.EncodeToString(ed25519.Sign(priv, []byte(jcanon(obj.without("signatures", "unsigned")))))
		switch rapid.IntRange(0, 5).Draw(t, "sigShape") {
		case 0:
		case 1:
			obj = obj.with("signatures", rapid.SampledFrom(c18SignaturesValues()).Draw(t, "block"))
		default:
			obj = obj.with("signatures", jobj(name, jobj("ed25519:1", jstr(sig))))
		}
	}
	c.Body = vfBytes(jplain(obj))
	if rapid.IntRange(0, 7).Draw(t, "bytes") == 0 {
		c.Body = c18MutateBytes(t, c.Body, 1)
	}
	return c
}

var _ = strings.Repeat

func init() {
	vfRapid("C18/json", "non-trivial = CanonicalJSON accepted the text (so the canonical encoder, and behind the library's own validity gate CompactJSON / SortJSON, ran over it); invalid texts are fed too (they must be refused without a panic).", 4000, 200000, 8, c18GenJSON, c18JSONCheck)
	vfRapid("C18/sign", "non-trivial = the message is a JSON object the signing code could unpack (ListKeyIDs returned without error), so VerifyJSON / SignJSON / the key ring went past input validation.", 2500, 100000, 8, c18GenSign, c18SignCheck)
	vfRapid("C18/keys", "non-trivial = the key response unmarshalled into ServerKeys and CheckKeys / PublicKey / the fetchers / the key ring ran on it.", 2000, 80000, 8, c18GenKeys, c18KeysCheck)
}
