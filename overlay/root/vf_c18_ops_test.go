//go:build verif

// C18 — no input from the network can crash the library.
//
// This file holds what every C18 sub-check of the root package shares: the per-case bookkeeping
// around the kit's vfCatch (one library call per catch; a panic function is reported once per
// case, the entry point that reached it is recorded as a class), the stubs that stand in for the
// caller-supplied collaborators (verifier, sender querier, event / state providers), and the list
// of accessors and operations that is applied to every event the parsers accepted.
package gomatrixserverlib

import (
	"context"
	"crypto/ed25519"
	"encoding/json"
	"fmt"
	"time"

	"github.com/matrix-org/gomatrixserverlib/spec"
)

// ---------------------------------------------------------------------------------------------
// bookkeeping

type c18State struct {
	ctx    *vfCtx
	prefix string          // signature stem, e.g. "C18/events"
	seen   map[string]bool // signatures already reported in this case
	ops    int             // library calls made after parsing (returned or panicked)
	quiet  bool            // observe only: panics are counted as classes, not judged
}

func c18NewState(ctx *vfCtx, prefix string) *c18State {
	return &c18State{ctx: ctx, prefix: prefix, seen: map[string]bool{}}
}

// call runs exactly one library entry point under vfCatch. The signature is
// prefix/panic/<top library function>; a function that already panicked in this case is not
// reported a second time (same root cause reached through another entry point), but the entry
// point is recorded as a class either way.
func (s *c18State) call(op string, f func()) (panicked bool) {
	n := len(s.ctx.findings)
	panicked = vfCatch(s.ctx, s.prefix, f)
	s.ops++
	if !panicked || len(s.ctx.findings) <= n {
		return panicked
	}
	fd := s.ctx.findings[len(s.ctx.findings)-1]
	stem := fd.Sig[len(s.prefix)+len("/panic/"):]
	switch {
	case s.quiet:
		s.ctx.findings = s.ctx.findings[:n]
		s.ctx.Class("unjudged-panic/" + stem)
	case s.seen[fd.Sig]:
		s.ctx.findings = s.ctx.findings[:n]
		s.ctx.Class("again/" + stem)
	default:
		s.seen[fd.Sig] = true
		s.ctx.findings[len(s.ctx.findings)-1].Msg = op + ": " + fd.Msg
		s.ctx.Class("panic/" + stem + "/via/" + op)
	}
	return panicked
}

func c18Copy(b []byte) []byte { return append([]byte(nil), b...) }

// ---------------------------------------------------------------------------------------------
// stubs for caller-supplied collaborators (all within their documented contracts)

// c18Verifier: mode 0 answers "valid" for every request, mode 1 answers "invalid" for every
// request, mode 2 fails as a whole, mode 3 verifies for real against the vfKeyFor("origin:<name>")
// key table (so the library's own VerifyJSON / ListKeyIDs see the hostile signature blocks).
type c18Verifier struct{ mode int }

func (v c18Verifier) VerifyJSONs(ctx context.Context, reqs []VerifyJSONRequest) ([]VerifyJSONResult, error) {
	out := make([]VerifyJSONResult, len(reqs))
	switch v.mode {
	case 1:
		for i := range out {
			out[i].Error = fmt.Errorf("c18: stub says invalid")
		}
	case 2:
		return nil, fmt.Errorf("c18: stub verifier failure")
	case 3:
		for i, r := range reqs {
			out[i].Error = fmt.Errorf("c18: no valid signature from %q", r.ServerName)
			ids, err := ListKeyIDs(string(r.ServerName), r.Message)
			if err != nil {
				out[i].Error = err
				continue
			}
			pub, _ := vfKeyFor("origin:" + string(r.ServerName))
			for _, id := range ids {
				if VerifyJSON(string(r.ServerName), id, pub, r.Message) == nil {
					out[i].Error = nil
					break
				}
			}
		}
	}
	return out, nil
}

// c18Querier: mode 0 is the identity mapping of non-pseudo-ID rooms (error for anything that is
// not a user ID); mode 1 answers (nil, nil) for senders it does not know, which is how a
// pseudo-ID room's sender table answers for a key it has never seen (the library itself tests
// for a nil result in commonChecks / NewCreateContentFromAuthEvents / VerifyEventSignatures).
func c18Querier(mode int) spec.UserIDForSender {
	if mode == 1 {
		return func(roomID spec.RoomID, senderID spec.SenderID) (*spec.UserID, error) {
			u, err := spec.NewUserID(string(senderID), true)
			if err != nil {
				return nil, nil
			}
			return u, nil
		}
	}
	return vfUserIDForSender
}

func c18NotRejected(string) bool { return false }

// c18Pool serves events by ID: the EventProvider / StateProvider / BackfillRequester a caller
// would back with its database.
type c18Pool struct {
	byID map[string]PDU
	ids  []string
	raws []json.RawMessage
	fail bool
}

func c18NewPool(s *c18State, events []PDU) *c18Pool {
	p := &c18Pool{byID: map[string]PDU{}}
	for _, e := range events {
		if e == nil {
			continue
		}
		var id string
		if s.call("pool/EventID", func() { id = e.EventID() }) {
			continue
		}
		if _, dup := p.byID[id]; !dup {
			p.byID[id] = e
			p.ids = append(p.ids, id)
		}
	}
	return p
}

func (p *c18Pool) Provide(roomVer RoomVersion, eventIDs []string) ([]PDU, error) {
	if p.fail {
		return nil, fmt.Errorf("c18: provider failure")
	}
	var out []PDU
	for _, id := range eventIDs {
		if e, ok := p.byID[id]; ok {
			out = append(out, e)
		}
	}
	return out, nil
}

func (p *c18Pool) StateIDsBeforeEvent(ctx context.Context, event PDU) ([]string, error) {
	return append([]string(nil), p.ids...), nil
}

func (p *c18Pool) StateBeforeEvent(ctx context.Context, roomVer RoomVersion, event PDU, eventIDs []string) (map[string]PDU, error) {
	out := map[string]PDU{}
	for id, e := range p.byID {
		out[id] = e
	}
	return out, nil
}

func (p *c18Pool) Backfill(ctx context.Context, origin, server spec.ServerName, roomID string, limit int, fromEventIDs []string) (Transaction, error) {
	return Transaction{Origin: server, PDUs: p.raws}, nil
}

func (p *c18Pool) ServersAtEvent(ctx context.Context, roomID, eventID string) []spec.ServerName {
	return []spec.ServerName{"a.example", "b.example"}
}

func (p *c18Pool) ProvideEvents(roomVer RoomVersion, eventIDs []string) ([]PDU, error) {
	return p.Provide(roomVer, eventIDs)
}

type c18StateResp struct{ auth, state EventJSONs }

func (r *c18StateResp) GetAuthEvents() EventJSONs  { return r.auth }
func (r *c18StateResp) GetStateEvents() EventJSONs { return r.state }

// ---------------------------------------------------------------------------------------------
// accepted-event semantics

// c18Accepted mirrors what the library's own callers do with the parser's two results
// (EventJSONs.UntrustedEvents): no error, or a "persistable" validation error.
func c18Accepted(err error) bool {
	if err == nil {
		return true
	}
	if ve, ok := err.(EventValidationError); ok && ve.Persistable {
		return true
	}
	return false
}

var (
	c18Received = time.UnixMilli(1700000000000).UTC()
	c18Now      = time.UnixMilli(1700000100000).UTC()
)

func c18LocalKey() ed25519.PrivateKey {
	_, priv := vfKeyFor("c18:local")
	return priv
}

// c18Fresh re-parses the event's own JSON so that mutating operations work on a private copy.
func c18Fresh(s *c18State, impl IRoomVersion, ev PDU, op string) PDU {
	var cp PDU
	var err error
	var raw []byte
	var red bool
	if s.call(op+"/JSON", func() { raw = c18Copy(ev.JSON()); red = ev.Redacted() }) {
		return nil
	}
	if s.call(op+"/reparse", func() { cp, err = impl.NewEventFromTrustedJSON(raw, red) }) || err != nil {
		return nil
	}
	return cp
}

// c18Light: the identity accessors, applied to derived events (redacted copy, re-signed copy ...).
// When the same accessors returned normally on the event the copy was derived from (origOK), a
// panic on the derived event is a different defect from "the parser accepted an event its
// accessors cannot serve": it is reported under <prefix>/after-<operation>.
func c18Light(s *c18State, ev PDU, tag string, origOK bool) (ok bool) {
	if ev == nil {
		return false
	}
	d := s
	if origOK {
		op := tag
		if i := lastSlash(tag); i >= 0 {
			op = tag[i+1:]
		}
		d = &c18State{ctx: s.ctx, prefix: s.prefix + "/after-" + op, seen: map[string]bool{}, quiet: s.quiet}
	}
	ok = !d.call(tag+"/EventID", func() { _ = ev.EventID() })
	ok = !d.call(tag+"/RoomID", func() { r := ev.RoomID(); _ = r.String() }) && ok
	ok = !d.call(tag+"/AuthEventIDs", func() { _ = ev.AuthEventIDs() }) && ok
	d.call(tag+"/SenderID", func() { _ = ev.SenderID() })
	if d != s {
		s.ops += d.ops
	}
	return ok
}

func lastSlash(s string) int {
	for i := len(s) - 1; i >= 0; i-- {
		if s[i] == '/' {
			return i
		}
	}
	return -1
}

// c18Ops applies every accessor and single-event operation to an event a parser accepted.
func c18Ops(s *c18State, impl IRoomVersion, ev PDU, q spec.UserIDForSender, tag string) {
	if ev == nil {
		return
	}
	ctx := context.Background()
	var typ string
	var sender spec.SenderID
	idOK := !s.call(tag+"/EventID", func() { _ = ev.EventID() })
	idOK = !s.call(tag+"/RoomID", func() { r := ev.RoomID(); _ = r.String(); _ = r.OpaqueID() }) && idOK
	s.call(tag+"/Type", func() { typ = ev.Type() })
	s.call(tag+"/StateKey", func() { _ = ev.StateKey(); _ = ev.StateKeyEquals("") })
	s.call(tag+"/Content", func() { _ = ev.Content() })
	s.call(tag+"/Membership", func() { _, _ = ev.Membership() })
	s.call(tag+"/JoinRule", func() { _, _ = ev.JoinRule() })
	s.call(tag+"/HistoryVisibility", func() { _, _ = ev.HistoryVisibility() })
	s.call(tag+"/PowerLevels", func() {
		if pl, err := ev.PowerLevels(); err == nil && pl != nil {
			_ = pl.UserLevel("@alice:a.example")
			_ = pl.EventLevel("m.room.message", false)
			_ = pl.NotificationLevel("room")
		}
	})
	s.call(tag+"/Version", func() { _ = ev.Version() })
	s.call(tag+"/Redacts", func() { _ = ev.Redacts(); _ = ev.Redacted() })
	s.call(tag+"/PrevEventIDs", func() { _ = ev.PrevEventIDs() })
	s.call(tag+"/AuthEventIDs", func() { _ = ev.AuthEventIDs() })
	s.call(tag+"/OriginServerTS", func() { _ = ev.OriginServerTS().Time() })
	s.call(tag+"/Depth", func() { _ = ev.Depth() })
	s.call(tag+"/Unsigned", func() { _ = ev.Unsigned() })
	s.call(tag+"/JSON", func() { _ = ev.JSON() })
	s.call(tag+"/MarshalJSON", func() { _, _ = json.Marshal(ev) })
	s.call(tag+"/SenderID", func() { sender = ev.SenderID() })
	s.call(tag+"/SenderID.IsUserID", func() { _ = sender.IsUserID() })
	s.call(tag+"/SenderID.IsPseudoID", func() { _ = sender.IsPseudoID() })
	s.call(tag+"/SenderID.ToUserID", func() {
		if u := sender.ToUserID(); u != nil {
			_ = u.String()
			_ = u.Local()
			_ = u.Domain()
		}
	})
	s.call(tag+"/SenderID.ToPseudoID", func() { _ = sender.ToPseudoID() })
	s.call(tag+"/SenderID.RawBytes", func() { _, _ = sender.RawBytes() })
	s.call(tag+"/IsSticky", func() { _ = ev.IsSticky(c18Now, c18Received) })
	s.call(tag+"/StickyEndTime", func() { _ = ev.StickyEndTime(c18Received) })
	s.call(tag+"/CheckFields", func() { _ = CheckFields(ev) })
	s.call(tag+"/StateNeededForAuth", func() { n := StateNeededForAuth([]PDU{ev}); _ = n.Tuples() })
	s.call(tag+"/NewInviteStrippedState", func() { ss := NewInviteStrippedState(ev); _, _ = json.Marshal(ss) })
	s.call(tag+"/RedactEventJSON", func() { _, _ = impl.RedactEventJSON(c18Copy(ev.JSON())) })
	s.call(tag+"/NewMemberContentFromEvent", func() { _, _ = NewMemberContentFromEvent(ev) })
	s.call(tag+"/NewPowerLevelContentFromEvent", func() { _, _ = NewPowerLevelContentFromEvent(ev) })
	if typ == spec.MRoomCreate {
		s.call(tag+"/CreatorsFromCreateEvent", func() { _ = CreatorsFromCreateEvent(ev) })
	}
	if typ == spec.MRoomMember {
		s.call(tag+"/RestrictedJoinServername", func() { _, _ = impl.RestrictedJoinServername(ev.Content()) })
	}

	// Redact on a private copy, then identity accessors on the redacted form.
	if cp := c18Fresh(s, impl, ev, tag+"/Redact"); cp != nil {
		if !s.call(tag+"/Redact", func() { cp.Redact() }) {
			c18Light(s, cp, tag+"/Redact", idOK)
		}
	}
	// SetUnsigned returns a copy.
	var su PDU
	var suErr error
	if !s.call(tag+"/SetUnsigned", func() {
		su, suErr = ev.SetUnsigned(map[string]interface{}{"age": 5, "prev_content": map[string]interface{}{"a": "b"}})
	}) && suErr == nil {
		c18Light(s, su, tag+"/SetUnsigned", idOK)
	}
	// SetUnsignedField mutates: private copies, several path shapes.
	for _, path := range []string{"invite_room_state", "a.b", "", "0", "a\\.b", "*", "a.-1", "#"} {
		if cp := c18Fresh(s, impl, ev, tag+"/SetUnsignedField"); cp != nil {
			var err error
			if !s.call(tag+"/SetUnsignedField", func() { err = cp.SetUnsignedField(path, []InviteStrippedState{}) }) && err == nil {
				s.call(tag+"/SetUnsignedField/Unsigned", func() { _ = cp.Unsigned(); _ = cp.JSON() })
			}
		}
	}
	// Headered round trip.
	var hj []byte
	var herr error
	if !s.call(tag+"/ToHeaderedJSON", func() { hj, herr = ev.ToHeaderedJSON() }) && herr == nil {
		var hv PDU
		if !s.call(tag+"/NewEventFromHeaderedJSON", func() { hv, herr = NewEventFromHeaderedJSON(c18Copy(hj), false) }) && herr == nil {
			c18Light(s, hv, tag+"/NewEventFromHeaderedJSON", idOK)
		}
	}
	// Counter-signing a received event is what HandleInvite does with a remote invite.
	if cp := c18Fresh(s, impl, ev, tag+"/Sign"); cp != nil {
		var signed PDU
		if !s.call(tag+"/Sign", func() { signed = cp.Sign("local.example", "ed25519:c18", c18LocalKey()) }) {
			c18Light(s, signed, tag+"/Sign", idOK)
		}
	}
	// Signature checks with stub verifiers (never nil).
	for _, mode := range []int{0, 3} {
		s.call(tag+"/VerifyEventSignatures", func() { _ = VerifyEventSignatures(ctx, ev, c18Verifier{mode}, q) })
	}
}

// ---------------------------------------------------------------------------------------------
// the event in a small room: auth check as event and as auth event, state resolution, ordering

// c18AuthCycle reports whether the auth graph over these events (by event ID) has a cycle. The
// resolvers' mainline walks (createPowerLevelMainline, getFirstPowerLevelMainlineEvent) recurse
// along auth_events without a visited set: a cycle (possible only where event IDs are chosen by the
// sender, room versions 1 and 2) ends in a stack overflow, which is fatal to the process and can
// not be observed from inside it. Those inputs are kept away from the resolvers and counted.
func c18AuthCycle(s *c18State, events []PDU) bool {
	auth := map[string][]string{}
	for _, e := range events {
		if e == nil {
			continue
		}
		var id string
		var ids []string
		if s.call("graph/EventID", func() { id = e.EventID() }) {
			continue
		}
		if s.call("graph/AuthEventIDs", func() { ids = e.AuthEventIDs() }) {
			continue
		}
		auth[id] = append(auth[id], ids...)
	}
	state := map[string]int{} // 1 = on stack, 2 = done
	var visit func(id string) bool
	visit = func(id string) bool {
		switch state[id] {
		case 1:
			return true
		case 2:
			return false
		}
		state[id] = 1
		for _, a := range auth[id] {
			if _, ok := auth[a]; ok && visit(a) {
				return true
			}
		}
		state[id] = 2
		return false
	}
	for id := range auth {
		if visit(id) {
			return true
		}
	}
	return false
}

func c18SameSlot(s *c18State, a, b PDU) bool {
	same := false
	s.call("slot", func() {
		if a.Type() != b.Type() {
			return
		}
		ak, bk := a.StateKey(), b.StateKey()
		if ak == nil || bk == nil {
			return
		}
		same = *ak == *bk
	})
	return same
}

// c18Replace returns the room with the event in ev's (type, state_key) slot replaced by ev (ev is
// appended when it has no state key or fills a new slot).
func c18Replace(s *c18State, room []PDU, ev PDU) []PDU {
	out := make([]PDU, 0, len(room)+1)
	for _, r := range room {
		if c18SameSlot(s, r, ev) {
			continue
		}
		out = append(out, r)
	}
	return append(out, ev)
}

func c18Embed(s *c18State, version string, ev PDU, room, probes []PDU, q spec.UserIDForSender) {
	if ev == nil || len(room) == 0 {
		return
	}
	// (A) the event under check against the valid room.
	var prov *AuthEvents
	var err error
	if !s.call("NewAuthEvents/room", func() { prov, err = NewAuthEvents(room) }) && err == nil {
		s.call("Allowed/as-event", func() { _ = Allowed(ev, prov, q) })
	}
	// (B) the event as an auth event for ordinary events.
	replaced := c18Replace(s, room, ev)
	var prov2 *AuthEvents
	if !s.call("NewAuthEvents/replaced", func() { prov2, err = NewAuthEvents(replaced) }) && err == nil && prov2 != nil {
		for _, p := range probes {
			s.call("Allowed/as-auth-event", func() { _ = Allowed(p, prov2, q) })
		}
	}
	// (C) state resolution with the event in one of two state sets.
	all := append(append([]PDU{}, room...), ev)
	if c18AuthCycle(s, all) {
		s.ctx.Class("auth-cycle(given to the resolvers)")
	}
	{
		s.call("ResolveConflictsNew", func() {
			_, _ = ResolveConflictsNew(RoomVersion(version), [][]PDU{append([]PDU{}, room...), append([]PDU{}, replaced...)}, append([]PDU{}, all...), q, c18NotRejected)
		})
		s.call("ResolveConflicts", func() {
			_, _ = ResolveConflicts(RoomVersion(version), append(append([]PDU{}, room...), replaced...), append([]PDU{}, all...), q, c18NotRejected)
		})
		// (D) orderings
		s.call("ReverseTopologicalOrdering/auth", func() { _ = ReverseTopologicalOrdering(append([]PDU{}, all...), TopologicalOrderByAuthEvents) })
		s.call("ReverseTopologicalOrdering/prev", func() { _ = ReverseTopologicalOrdering(append([]PDU{}, all...), TopologicalOrderByPrevEvents) })
		s.call("HeaderedReverseTopologicalOrdering/auth", func() {
			_ = HeaderedReverseTopologicalOrdering(append([]PDU{}, replaced...), TopologicalOrderByAuthEvents)
		})
		s.call("HeaderedReverseTopologicalOrdering/prev", func() {
			_ = HeaderedReverseTopologicalOrdering(append([]PDU{}, replaced...), TopologicalOrderByPrevEvents)
		})
	}
	// (E) auth chain walk with a provider serving the room.
	pool := c18NewPool(s, room)
	s.call("VerifyEventAuthChain", func() { _ = VerifyEventAuthChain(context.Background(), ev, pool.Provide, q) })
	s.call("VerifyAuthRulesAtState", func() { _ = VerifyAuthRulesAtState(context.Background(), pool, ev, true, q) })
}
