//go:build verif

package gomatrixserverlib

// C19 — engine shared by the concurrency scenarios (an identical copy, apart from the package
// clause, lives in overlay/fclient).
//
// Why a child process. Two of the things C19 has to observe cannot be observed from inside the
// process that runs the kit: a race-detector report is printed by the runtime and turns the exit
// status of the WHOLE test binary into 66, and an unsynchronised map access ends in the runtime's
// "fatal error: concurrent map writes", which no recover() catches. Both would reach the driver as
// "job failed without a recorded violation" (inconclusive). Therefore every concurrent scenario is
// executed in a child process of the test binary itself (os.Executable, -test.run
// ^TestVFC19Child$): the parent's check(Case) marshals the Case to the child's stdin, the child
// runs the scenario AND its oracles and streams classes / findings back as "VFC19 <kind> <json>"
// lines, the parent transcribes them into the vfCtx and additionally turns every
// "WARNING: DATA RACE" block, every runtime fatal error and every escaped panic found on the
// child's stderr into a finding with a signature made of function names (stable across line
// drift). A child also gives perfect isolation: no goroutine, timer or connection outlives a case.
//
// Why "steps". The harness owns the schedule at the points where the code under test calls a
// collaborator with its lock released (resolver, key client, HTTP handler) and at the start of every
// operation ("gate"). Collaborators are stubs that park on a channel owned by the scheduler. A
// schedule is a list of steps; a step releases a SET of parked goroutines at once and then waits
// until each of them has reached its next parking point. Width 1 gives a fully determined
// interleaving of the critical sections (exact model comparison); width >= 2 is what makes the
// released critical sections concurrent in the happens-before sense, which is what the race
// detector needs (a strictly serial scheduler would order everything through its own channels and
// hide every race).

import (
	"bytes"
	"context"
	"encoding/json"
	"fmt"
	"io"
	"os"
	"os/exec"
	"regexp"
	"runtime"
	"sort"
	"strings"
	"sync"
	"sync/atomic"
	"syscall"
	"testing"
	"time"

	"pgregory.net/rapid"
)

// ---------------------------------------------------------------------------------------------
// wire protocol child -> parent

const c19Prefix = "VFC19 "

// c19Out is the child's view of a vfCtx.
type c19Out struct {
	mu      sync.Mutex
	w       io.Writer
	failed  bool
	classes map[string]bool
}

func (o *c19Out) emit(kind string, payload any) {
	b, _ := json.Marshal(payload)
	o.mu.Lock()
	fmt.Fprintf(o.w, "%s%s %s\n", c19Prefix, kind, b)
	o.mu.Unlock()
}

func (o *c19Out) Class(s string) {
	o.mu.Lock()
	if o.classes == nil {
		o.classes = map[string]bool{}
	}
	dup := o.classes[s]
	o.classes[s] = true
	o.mu.Unlock()
	if !dup {
		o.emit("C", s)
	}
}
func (o *c19Out) NonTrivial()       { o.emit("N", "") }
func (o *c19Out) Unjudged(s string) { o.emit("U", s) }
func (o *c19Out) Fail(sig, format string, args ...any) {
	o.mu.Lock()
	o.failed = true
	o.mu.Unlock()
	o.emit("F", [2]string{sig, fmt.Sprintf(format, args...)})
}

// c19HarnessTrouble reports trouble of the environment (not of the code under test) from the
// child; the parent ends the job as inconclusive.
func c19HarnessTrouble(o *c19Out, format string, args ...any) {
	o.emit("X", fmt.Sprintf(format, args...))
}

func (o *c19Out) Failed() bool {
	o.mu.Lock()
	defer o.mu.Unlock()
	return o.failed
}

// c19Scenarios: name -> runner (child side). Filled by the scenario files' init functions.
var c19Scenarios = map[string]func(out *c19Out, raw []byte){}

// TestVFC19Child is the child-process entry point. It does nothing unless VF_C19_CHILD names a
// scenario.
func TestVFC19Child(t *testing.T) {
	name := os.Getenv("VF_C19_CHILD")
	if name == "" {
		t.Skip("C19 child mode only")
	}
	raw, err := io.ReadAll(os.Stdin)
	if err != nil {
		t.Fatalf("VFHARNESS c19 child cannot read its case: %v", err)
	}
	run := c19Scenarios[name]
	if run == nil {
		t.Fatalf("VFHARNESS c19 child: unknown scenario %q", name)
	}
	out := &c19Out{w: os.Stdout}
	c19Beat()
	go c19Watchdog(out)
	run(out, raw)
	out.emit("D", "")
}

// c19Beat records progress; c19Watchdog reports a hang to the parent (and ends the child) when
// nothing has recorded progress for c19StepTimeout. The scheduler beats on every event and every
// release, the scenarios beat between the operations they run outside the scheduler.
var c19LastBeat atomic.Int64

func c19Beat() { c19LastBeat.Store(time.Now().UnixNano()) }

func c19Watchdog(out *c19Out) {
	for {
		time.Sleep(200 * time.Millisecond)
		if time.Since(time.Unix(0, c19LastBeat.Load())) > c19StepTimeout {
			c19Hang(out)
		}
	}
}

func c19Hang(out *c19Out) {
	buf := make([]byte, 1<<20)
	n := runtime.Stack(buf, true)
	dump := string(buf[:n])
	out.emit("H", [2]string{c19HangWhere(dump), c19Tail(dump, 6000)})
	os.Exit(0)
}

// ---------------------------------------------------------------------------------------------
// parent side

const (
	c19StepTimeout  = 6 * time.Second  // child: one scheduler step makes no progress
	c19ChildTimeout = 45 * time.Second // parent: whole child
)

type c19Run struct {
	lines  [][2]string
	done   bool
	hang   string // non-empty: where the child (or the SIGQUIT dump) says it is stuck
	hung   bool
	infra  string
	stderr string
	stdout string
	err    error
}

func c19Spawn(scenario string, raw []byte) c19Run {
	var r c19Run
	exe, err := os.Executable()
	if err != nil {
		r.err = err
		return r
	}
	cctx, cancel := context.WithTimeout(context.Background(), c19ChildTimeout)
	defer cancel()
	cmd := exec.CommandContext(cctx, exe, "-test.run=^TestVFC19Child$", "-test.timeout=600s")
	for _, kv := range os.Environ() {
		if strings.HasPrefix(kv, "VF_") || strings.HasPrefix(kv, "GORACE=") {
			continue
		}
		cmd.Env = append(cmd.Env, kv)
	}
	// halt_on_error=0: the scenario runs to its end, so its own oracles still speak and every race
	// of the run is reported, not only the first. atexit_sleep_ms=0: no 1 s nap at exit.
	cmd.Env = append(cmd.Env, "VF_C19_CHILD="+scenario, "GORACE=halt_on_error=0 atexit_sleep_ms=0 exitcode=66")
	cmd.Stdin = bytes.NewReader(raw)
	var so, se bytes.Buffer
	cmd.Stdout, cmd.Stderr = &so, &se
	// on the parent's deadline ask the runtime for a goroutine dump instead of killing silently
	cmd.Cancel = func() error { return cmd.Process.Signal(syscall.SIGQUIT) }
	// the child must not survive the test process (e.g. when the driver kills it at its deadline)
	cmd.SysProcAttr = &syscall.SysProcAttr{Pdeathsig: syscall.SIGKILL}
	cmd.WaitDelay = 5 * time.Second
	runErr := cmd.Run()
	r.stdout, r.stderr = so.String(), se.String()
	for _, line := range strings.Split(r.stdout, "\n") {
		if !strings.HasPrefix(line, c19Prefix) {
			continue
		}
		rest := line[len(c19Prefix):]
		kind, payload, _ := strings.Cut(rest, " ")
		switch kind {
		case "D":
			r.done = true
		case "X":
			_ = json.Unmarshal([]byte(payload), &r.infra)
		case "H":
			var p [2]string
			_ = json.Unmarshal([]byte(payload), &p)
			r.hung, r.hang = true, p[0]
			r.stderr += "\n" + p[1]
		default:
			r.lines = append(r.lines, [2]string{kind, payload})
		}
	}
	if cctx.Err() != nil && !r.done {
		r.hung = true
		if r.hang == "" {
			r.hang = c19HangWhere(r.stderr)
		}
	}
	if !r.done && !r.hung && runErr != nil {
		r.err = runErr
	}
	return r
}

// c19Check is what a scenario's check(Case) calls in the parent.
func c19Check(ctx *vfCtx, scenario string, c any) {
	raw, err := json.Marshal(c)
	if err != nil {
		panic(err)
	}
	crashes := 0
	var r c19Run
	for {
		r = c19Spawn(scenario, raw)
		if r.infra != "" {
			c19Infra("scenario %s: %s", scenario, r.infra)
		}
		if r.hung || r.done || c19Crashed(r) {
			break
		}
		// neither a verdict nor a recognisable crash of the code under test: infrastructure
		crashes++
		if crashes >= 3 {
			c19Infra("scenario %s: child ended without a verdict: %v\nstdout: %s\nstderr: %s", scenario, r.err, c19Tail(r.stdout, 1500), c19Tail(r.stderr, 3000))
		}
	}
	if !r.hung {
		c19Transcribe(ctx, scenario, r)
		return
	}
	// oracle (iv): a hang counts only if it reproduces on two further runs of the same case
	// (run side by side to save time); otherwise the case is judged on a run that finished.
	var again [2]c19Run
	var wg sync.WaitGroup
	for i := range again {
		wg.Add(1)
		go func(i int) {
			defer wg.Done()
			again[i] = c19Spawn(scenario, raw)
		}(i)
	}
	wg.Wait()
	for _, a := range again {
		if !a.hung && (a.done || c19Crashed(a)) {
			ctx.Unjudged("C19/slow-run-not-reproduced")
			c19Transcribe(ctx, scenario, a)
			return
		}
	}
	if !again[0].hung || !again[1].hung {
		ctx.Unjudged("C19/slow-run-not-reproduced")
		return
	}
	c19Transcribe(ctx, scenario, r)
	ctx.Fail("C19/deadlock/"+scenario+"/"+r.hang,
		"no progress for %v in three runs of the same case; blocked outside the stubs: %s\n%s", c19StepTimeout, r.hang, c19Tail(r.stderr, 2500))
}

// c19Infra ends the test process in a way the driver classes as inconclusive (exit status != 0
// without a recorded violation), keeping the statistics gathered so far.
func c19Infra(format string, args ...any) {
	fmt.Fprintf(os.Stderr, "VFHARNESS c19: "+format+"\n", args...)
	vfWriteStats()
	os.Exit(3)
}

func c19Tail(s string, n int) string {
	if len(s) > n {
		return "..." + s[len(s)-n:]
	}
	return s
}

var c19FatalRe = regexp.MustCompile(`(?m)^(fatal error|panic): (.*)$`)

func c19Crashed(r c19Run) bool {
	return c19FatalRe.MatchString(r.stderr) || c19FatalRe.MatchString(r.stdout)
}

func c19Slug(s string) string {
	s = strings.ToLower(s)
	var b strings.Builder
	dash := false
	for _, ch := range s {
		if (ch >= 'a' && ch <= 'z') || (ch >= '0' && ch <= '9') {
			b.WriteRune(ch)
			dash = false
		} else if !dash && b.Len() > 0 {
			b.WriteByte('-')
			dash = true
		}
	}
	out := strings.Trim(b.String(), "-")
	if len(out) > 48 {
		out = out[:48]
	}
	return out
}

func c19Transcribe(ctx *vfCtx, scenario string, r c19Run) {
	for _, l := range r.lines {
		var s string
		switch l[0] {
		case "C":
			_ = json.Unmarshal([]byte(l[1]), &s)
			ctx.Class(s)
		case "N":
			ctx.NonTrivial()
		case "U":
			_ = json.Unmarshal([]byte(l[1]), &s)
			ctx.Unjudged(s)
		case "F":
			var p [2]string
			_ = json.Unmarshal([]byte(l[1]), &p)
			ctx.Fail(p[0], "%s", p[1])
		}
	}
	seen := map[string]bool{}
	for _, rc := range c19ParseRaces(r.stderr) {
		if seen[rc.Sig] {
			continue
		}
		seen[rc.Sig] = true
		ctx.Class("race-report")
		ctx.Fail(rc.Sig, "race detector: %s", rc.Msg)
	}
	if !r.done && !r.hung {
		text := r.stderr
		m := c19FatalRe.FindStringSubmatchIndex(text)
		if m == nil {
			text = r.stdout
			m = c19FatalRe.FindStringSubmatchIndex(text)
		}
		if m != nil {
			kind, what := text[m[2]:m[3]], text[m[4]:m[5]]
			fn := vfPanicFunc([]byte(text[m[0]:]))
			if kind == "fatal error" {
				ctx.Fail("C19/fatal/"+c19Slug(what)+"/"+fn, "the runtime aborted the process: %s (in %s)\n%s", what, fn, c19Tail(text[m[0]:], 1800))
			} else {
				ctx.Fail("C19/panic/"+fn, "panic in scenario %s: %s\n%s", scenario, what, c19Tail(text[m[0]:], 1800))
			}
		}
	}
}

// ---------------------------------------------------------------------------------------------
// race-report parser

type c19Race struct {
	Sig string
	Msg string
}

var (
	c19AccessRe = regexp.MustCompile(`^(Read|Write|Previous read|Previous write|Atomic read|Atomic write|Previous atomic read|Previous atomic write) at 0x[0-9a-f]+ by (main goroutine|goroutine \d+)`)
	c19FileRe   = regexp.MustCompile(`^\s+(\S+\.go):(\d+)`)
)

// c19FuncName shortens "github.com/matrix-org/gomatrixserverlib/fclient.(*DNSCache).lookup()" to
// "DNSCache.lookup".
func c19FuncName(line string) string {
	fn := strings.TrimSpace(line)
	if i := strings.LastIndex(fn, "("); i > 0 && strings.HasSuffix(fn, ")") && !strings.HasSuffix(fn[:i], ")") {
		fn = fn[:i]
	} else {
		fn = strings.TrimSuffix(fn, "()")
	}
	if i := strings.LastIndex(fn, "/"); i >= 0 {
		fn = fn[i+1:]
	}
	if i := strings.Index(fn, "."); i >= 0 {
		fn = fn[i+1:]
	}
	return strings.NewReplacer("(*", "", ")", "", "(", "", " ", "").Replace(fn)
}

func c19ParseRaces(text string) []c19Race {
	var out []c19Race
	for _, block := range strings.Split(text, "==================") {
		if !strings.Contains(block, "WARNING: DATA RACE") {
			continue
		}
		lines := strings.Split(block, "\n")
		type access struct{ fn, site string }
		var acc []access
		for i := 0; i < len(lines); i++ {
			if !c19AccessRe.MatchString(lines[i]) {
				continue
			}
			a := access{fn: "", site: ""}
			harness := false
			j := i + 1
			for ; j+1 < len(lines) && strings.TrimSpace(lines[j]) != ""; j += 2 {
				fnLine, fileLine := lines[j], lines[j+1]
				m := c19FileRe.FindStringSubmatch(fileLine)
				if m == nil {
					break
				}
				base := m[1]
				if k := strings.LastIndex(base, "/"); k >= 0 {
					base = base[k+1:]
				}
				if strings.HasPrefix(base, "vf_") {
					harness = true
					continue
				}
				if !strings.Contains(fnLine, "gomatrixserverlib") {
					continue
				}
				a.fn, a.site = c19FuncName(fnLine), base+":"+m[2]
				break
			}
			if a.fn == "" {
				if harness {
					a.fn, a.site = "harness", "harness"
				} else {
					a.fn, a.site = "other", "other"
				}
			}
			acc = append(acc, a)
			i = j
		}
		if len(acc) < 2 {
			continue
		}
		names := []string{acc[0].fn, acc[1].fn}
		sort.Strings(names)
		out = append(out, c19Race{
			Sig: "C19/race/" + names[0] + "-" + names[1],
			Msg: fmt.Sprintf("%s (%s) races with %s (%s)\n%s", acc[0].fn, acc[0].site, acc[1].fn, acc[1].site, c19Tail(strings.TrimSpace(block), 1500)),
		})
	}
	return out
}

// c19HangWhere summarises a goroutine dump: the library functions in which goroutines are blocked
// that are NOT parked in one of the harness's stubs.
func c19HangWhere(dump string) string {
	set := map[string]bool{}
	for _, g := range strings.Split(dump, "\n\n") {
		g = strings.TrimSpace(g)
		if !strings.HasPrefix(g, "goroutine ") {
			continue
		}
		head, _, _ := strings.Cut(g, "\n")
		state := ""
		if i := strings.Index(head, "["); i >= 0 {
			state = strings.TrimSuffix(strings.TrimSpace(head[i+1:]), "]:")
			if k := strings.Index(state, ","); k >= 0 {
				state = state[:k]
			}
		}
		if state == "running" || strings.Contains(g, "c19Sched).park") || strings.Contains(g, "c19Sched).await") || strings.Contains(g, "c19Watchdog") {
			continue
		}
		fn := vfPanicFunc([]byte(g))
		if fn == "unknown" {
			continue
		}
		set[fn+"["+c19Slug(state)+"]"] = true
	}
	var names []string
	for n := range set {
		names = append(names, n)
	}
	sort.Strings(names)
	if len(names) > 3 {
		names = names[:3]
	}
	if len(names) == 0 {
		return "unknown"
	}
	return strings.Join(names, "+")
}

// ---------------------------------------------------------------------------------------------
// scheduler (child side)

type c19Step struct {
	Pick  int `json:"pick"`
	Width int `json:"width"`
}

// c19GenSched draws a schedule: mostly single releases (exact interleavings), a good share of
// simultaneous releases (what the race detector needs). Once it is used up, everything parked is
// released together.
func c19GenSched(t *rapid.T, maxSteps int) []c19Step {
	n := rapid.IntRange(0, maxSteps).Draw(t, "nsteps")
	var out []c19Step
	for i := 0; i < n; i++ {
		w := rapid.SampledFrom([]int{1, 1, 1, 1, 2, 2, 2, 3, 3, 4}).Draw(t, "width")
		out = append(out, c19Step{Pick: rapid.IntRange(0, 7).Draw(t, "pick"), Width: w})
	}
	return out
}

type c19GidKey struct{}

func c19Ctx(gid int) context.Context {
	return context.WithValue(context.Background(), c19GidKey{}, gid)
}
func c19Gid(ctx context.Context) int {
	if v, ok := ctx.Value(c19GidKey{}).(int); ok {
		return v
	}
	return -1
}

type c19Point struct {
	Key  string
	Gid  int
	Kind string
	Info any
	rel  chan any
}

type c19Event struct {
	Gid   int
	Kind  string // kind of the point, or of the notification
	Point *c19Point
}

type c19Sched struct {
	out     *c19Out
	events  chan c19Event
	parked  map[string]*c19Point
	steps   []c19Step
	stepIdx int
	// statistics
	parallelSteps int
	maxParked     map[string]int // kind -> most points of that kind parked at once
}

func c19NewSched(out *c19Out, steps []c19Step) *c19Sched {
	return &c19Sched{out: out, events: make(chan c19Event, 4096), parked: map[string]*c19Point{}, steps: steps, maxParked: map[string]int{}}
}

// park is called by a goroutine of the scenario (or by a stub on its behalf): it announces the
// point and blocks until the scheduler releases it; the release value is returned.
func (s *c19Sched) park(gid int, kind, key string, info any) any {
	p := &c19Point{Key: key, Gid: gid, Kind: kind, Info: info, rel: make(chan any, 1)}
	s.events <- c19Event{Gid: gid, Kind: kind, Point: p}
	return <-p.rel
}

// notify announces something that does not block (a goroutine has finished).
func (s *c19Sched) notify(gid int, kind string) { s.events <- c19Event{Gid: gid, Kind: kind} }

func (s *c19Sched) take(ev c19Event, on func(c19Event)) {
	c19Beat()
	if ev.Point != nil {
		if _, dup := s.parked[ev.Point.Key]; dup {
			s.out.Fail("C19/collaborator-called-twice-at-once/"+ev.Point.Kind, "two calls are parked under the key %s: the code under test called the same collaborator for the same goroutine and argument a second time while the first call was still running", ev.Point.Key)
		}
		s.parked[ev.Point.Key] = ev.Point
		n := 0
		for _, p := range s.parked {
			if p.Kind == ev.Point.Kind {
				n++
			}
		}
		if n > s.maxParked[ev.Point.Kind] {
			s.maxParked[ev.Point.Kind] = n
		}
	}
	if on != nil {
		on(ev)
	}
}

// await consumes events until, for every goroutine id in want, that many events have arrived
// from it. Events of other goroutines that arrive meanwhile are taken too. No progress for
// c19StepTimeout is reported to the parent as a hang (and the child ends).
func (s *c19Sched) await(want map[int]int, on func(c19Event)) {
	for {
		left := 0
		for _, n := range want {
			if n > 0 {
				left += n
			}
		}
		if left == 0 {
			break
		}
		timer := time.NewTimer(c19StepTimeout)
		select {
		case ev := <-s.events:
			timer.Stop()
			s.take(ev, on)
			want[ev.Gid]--
		case <-timer.C:
			s.hang()
		}
	}
	for {
		select {
		case ev := <-s.events:
			s.take(ev, on)
		default:
			return
		}
	}
}

func (s *c19Sched) hang() { c19Hang(s.out) }

// pick removes the next set of points to release from the parked set, according to the schedule
// (pick = index of the first point in key order, width = how many consecutive points). When the
// schedule is used up everything parked is released together.
func (s *c19Sched) pick() []*c19Point {
	keys := make([]string, 0, len(s.parked))
	for k := range s.parked {
		keys = append(keys, k)
	}
	if len(keys) == 0 {
		return nil
	}
	sort.Strings(keys)
	st := c19Step{Pick: 0, Width: len(keys)}
	if s.stepIdx < len(s.steps) {
		st = s.steps[s.stepIdx]
	}
	s.stepIdx++
	w := st.Width
	if w < 1 {
		w = 1
	}
	if w > len(keys) {
		w = len(keys)
	}
	start := st.Pick % len(keys)
	if start < 0 {
		start = 0
	}
	var sel []*c19Point
	for i := 0; i < w; i++ {
		k := keys[(start+i)%len(keys)]
		sel = append(sel, s.parked[k])
		delete(s.parked, k)
	}
	sort.Slice(sel, func(i, j int) bool { return sel[i].Key < sel[j].Key })
	if len(sel) >= 2 {
		s.parallelSteps++
	}
	return sel
}

func (p *c19Point) release(v any) {
	c19Beat()
	p.rel <- v
}

// c19Go starts a scenario goroutine whose panics become findings instead of killing the child.
func c19Go(out *c19Out, s *c19Sched, gid int, body func()) {
	go func() {
		defer func() {
			if r := recover(); r != nil {
				buf := make([]byte, 1<<16)
				n := runtime.Stack(buf, false)
				out.Fail("C19/panic/"+vfPanicFunc(buf[:n]), "panic in goroutine %d: %v at %s", gid, r, vfPanicSite(buf[:n]))
				if s != nil {
					s.notify(gid, "fin")
				}
			}
		}()
		body()
	}()
}
