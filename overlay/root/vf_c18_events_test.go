//go:build verif

// C18/events — well-formed, reference-hashed and reference-signed events of every registered
// room version with arbitrary field values and arbitrary content for every special event type,
// parsed with both parsers; every accepted event goes through c18Ops and c18Embed.
package gomatrixserverlib

import (
	"context"
	"crypto/ed25519"
	"crypto/sha256"
	"encoding/base64"
	"fmt"
	"strings"
	"sync"

	"github.com/matrix-org/gomatrixserverlib/spec"
	"pgregory.net/rapid"
)

type c18EvCase struct {
	Version  string  `json:"version"`
	Event    vfBytes `json:"event"`
	JoinRule string  `json:"join_rule"`         // join rule of the surrounding small room
	Bob      string  `json:"bob"`               // bob's membership in that room ("-" = none)
	Querier  int     `json:"querier,omitempty"` // see c18Querier
	NoRoom   bool    `json:"no_room,omitempty"` // accessors and single-event operations only
}

// ---------------------------------------------------------------------------------------------
// the surrounding room: a small, valid room with proper auth_events chains, rebuilt
// deterministically from (version, join rule, bob's membership) and cached (a pure function).

type c18Room struct {
	Version  string
	RoomID   string
	CreateID string
	State    []jv              // current state
	Chain    []jv              // state + superseded events (the auth chain)
	IDs      map[string]string // create, pl, jr, tpi, m:<user>
	Probes   []jv              // ordinary events that the room's state authorises (or cleanly refuses)
	last     string
	depth    int64
}

var c18RoomCache sync.Map

func c18RoomKey(version, joinRule, bob string) string { return version + "|" + joinRule + "|" + bob }

func c18GetRoom(version, joinRule, bob string) *c18Room {
	if _, ok := vtraits[version]; !ok {
		return nil
	}
	k := c18RoomKey(version, joinRule, bob)
	if r, ok := c18RoomCache.Load(k); ok {
		return r.(*c18Room)
	}
	r := c18BuildRoom(version, joinRule, bob)
	c18RoomCache.Store(k, r)
	return r
}

func c18Sign(version string, ev jv) jv {
	sender := evStr(ev, "sender")
	origin := "a.example"
	if i := strings.IndexByte(sender, ':'); i >= 0 && i+1 < len(sender) {
		origin = sender[i+1:]
	}
	_, priv := vfKeyFor("origin:" + origin)
	return rsign(version, ev, origin, "ed25519:1", priv)
}

func (r *c18Room) add(e raEv, authRoles ...string) jv {
	tr := vtraits[r.Version]
	r.depth++
	e.Depth = r.depth
	e.TS = 1000 + r.depth
	if !(tr.Creators && e.Type == "m.room.create") {
		e.Room = r.RoomID
	}
	if r.last != "" {
		e.Prev = []string{r.last}
	}
	for _, role := range authRoles {
		if id, ok := r.IDs[role]; ok {
			if tr.Creators && role == "create" {
				continue // the create event is implied by the room ID
			}
			e.Auth = append(e.Auth, id)
		}
	}
	e.ID = fmt.Sprintf("$c18r%d:a.example", r.depth)
	ev := c18Sign(r.Version, raJSON(r.Version, e))
	r.last = raEventID(r.Version, ev)
	return ev
}

func (r *c18Room) put(role string, ev jv) {
	// replace the state slot
	out := r.State[:0:0]
	typ, sk := evStr(ev, "type"), evStr(ev, "state_key")
	for _, s := range r.State {
		if evStr(s, "type") == typ && evStr(s, "state_key") == sk {
			continue
		}
		out = append(out, s)
	}
	r.State = append(out, ev)
	r.Chain = append(r.Chain, ev)
	r.IDs[role] = raEventID(r.Version, ev)
}

func c18PLContentFor(version string, aliceLevel int64) jv {
	users := map[string]int64{c07Alice: aliceLevel, c07Bob: 0}
	if !vtraits[version].Creators {
		users[c07Creator] = 100
	}
	return c07PLContent(users, map[string]int64{"ban": 50, "kick": 50, "redact": 50, "invite": 0, "events_default": 0, "state_default": 50, "users_default": 0},
		map[string]int64{"m.room.name": 50, "m.room.power_levels": 100}, map[string]int64{"room": 50})
}

func c18TPIContent() jv {
	return jobj("display_name", jstr("c..."), "key_validity_url", jstr("https://id.example/_matrix/identity/api/v1/pubkey/isvalid"),
		"public_key", jstr(c07PubB64("idkey1")),
		"public_keys", jarr(jobj("public_key", jstr(c07PubB64("idkey1")), "key_validity_url", jstr("https://id.example/v"))))
}

func c18BuildRoom(version, joinRule, bob string) *c18Room {
	tr := vtraits[version]
	r := &c18Room{Version: version, IDs: map[string]string{}, RoomID: "!room:a.example"}
	cc := jobj("room_version", jstr(version))
	if tr.CreatorField {
		cc = cc.with("creator", jstr(c07Creator))
	}
	create := r.add(raEv{Type: "m.room.create", Sender: c07Creator, StateKey: raSK(""), Content: cc})
	r.CreateID = raEventID(version, create)
	if tr.Creators {
		r.RoomID = "!" + r.CreateID[1:]
	}
	r.put("create", create)
	r.put("m:"+c07Creator, r.add(raEv{Type: "m.room.member", Sender: c07Creator, StateKey: raSK(c07Creator), Content: jobj("membership", jstr("join"))}, "create"))
	r.put("pl", r.add(raEv{Type: "m.room.power_levels", Sender: c07Creator, StateKey: raSK(""), Content: c18PLContentFor(version, 50)}, "create", "m:"+c07Creator))
	// alice: invited by the creator, then joins (valid under every join rule)
	r.put("m:"+c07Alice, r.add(raEv{Type: "m.room.member", Sender: c07Creator, StateKey: raSK(c07Alice), Content: jobj("membership", jstr("invite"))}, "create", "pl", "m:"+c07Creator))
	r.put("m:"+c07Alice, r.add(raEv{Type: "m.room.member", Sender: c07Alice, StateKey: raSK(c07Alice), Content: jobj("membership", jstr("join"))}, "create", "pl", "m:"+c07Alice))
	if joinRule != "-" {
		jc := jobj("join_rule", jstr(joinRule))
		if joinRule == "restricted" || joinRule == "knock_restricted" {
			jc = jc.with("allow", jarr(jobj("type", jstr("m.room_membership"), "room_id", jstr("!other:a.example"))))
		}
		r.put("jr", r.add(raEv{Type: "m.room.join_rules", Sender: c07Creator, StateKey: raSK(""), Content: jc}, "create", "pl", "m:"+c07Creator))
	}
	switch bob {
	case "-":
	case "invite":
		r.put("m:"+c07Bob, r.add(raEv{Type: "m.room.member", Sender: c07Alice, StateKey: raSK(c07Bob), Content: jobj("membership", jstr("invite"))}, "create", "pl", "jr", "m:"+c07Alice))
	case "ban":
		r.put("m:"+c07Bob, r.add(raEv{Type: "m.room.member", Sender: c07Creator, StateKey: raSK(c07Bob), Content: jobj("membership", jstr("ban"))}, "create", "pl", "m:"+c07Creator))
	default: // join, leave, knock: sent by bob himself
		r.put("m:"+c07Bob, r.add(raEv{Type: "m.room.member", Sender: c07Bob, StateKey: raSK(c07Bob), Content: jobj("membership", jstr(bob))}, "create", "pl", "jr"))
	}
	r.put("tpi", r.add(raEv{Type: "m.room.third_party_invite", Sender: c07Alice, StateKey: raSK("tok"), Content: c18TPIContent()}, "create", "pl", "m:"+c07Alice))

	// probes: ordinary events judged against the room's state
	stateRoles := []string{"create", "pl", "jr", "m:" + c07Creator, "m:" + c07Alice, "m:" + c07Bob, "tpi"}
	probe := func(e raEv) {
		save, saveDepth := r.last, r.depth
		r.Probes = append(r.Probes, r.add(e, stateRoles...))
		r.last, r.depth = save, saveDepth
	}
	probe(raEv{Type: "m.room.message", Sender: c07Alice, Content: jobj("body", jstr("hi"), "msgtype", jstr("m.text"))})
	probe(raEv{Type: "m.room.member", Sender: c07Bob, StateKey: raSK(c07Bob), Content: jobj("membership", jstr("join"), "join_authorised_via_users_server", jstr(c07Alice))})
	probe(raEv{Type: "m.room.member", Sender: c07Alice, StateKey: raSK(c07Carol), Content: jobj("membership", jstr("invite"),
		"third_party_invite", jobj("display_name", jstr("c"), "signed", c07Signed(c07Carol, "tok", "idkey1", false)))})
	probe(raEv{Type: "m.room.power_levels", Sender: c07Creator, StateKey: raSK(""), Content: c18PLContentFor(version, 51)})
	probe(raEv{Type: "m.room.power_levels", Sender: c07Alice, StateKey: raSK(""), Content: c18PLContentFor(version, 50).with("notifications", jobj("room", jnum(40)))})
	probe(raEv{Type: "m.room.member", Sender: c07Alice, StateKey: raSK(c07Bob), Content: jobj("membership", jstr("leave"))})
	probe(raEv{Type: "m.room.member", Sender: c07Carol, StateKey: raSK(c07Carol), Content: jobj("membership", jstr("knock"))})
	probe(raEv{Type: "m.room.aliases", Sender: c07Alice, StateKey: raSK("a.example"), Content: jobj("aliases", jarr(jstr("#a:a.example")))})
	probe(raEv{Type: "m.room.redaction", Sender: c07Bob, Redacts: r.IDs["tpi"], Content: jobj("redacts", jstr(r.IDs["tpi"]))})
	probe(raEv{Type: "m.room.join_rules", Sender: c07Creator, StateKey: raSK(""), Content: jobj("join_rule", jstr("public"))})
	// the creator's first join, directly after the create event
	save, saveDepth := r.last, r.depth
	r.last = r.CreateID
	r.Probes = append(r.Probes, r.add(raEv{Type: "m.room.member", Sender: c07Creator, StateKey: raSK(c07Creator), Content: jobj("membership", jstr("join"))}, "create"))
	r.last, r.depth = save, saveDepth
	return r
}

func c18ParseAll(version string, trees []jv) ([]PDU, error) {
	out := make([]PDU, 0, len(trees))
	for _, t := range trees {
		p, err := raParsePDU(version, t)
		if err != nil {
			return nil, err
		}
		out = append(out, p)
	}
	return out, nil
}

// ---------------------------------------------------------------------------------------------
// check

func c18EvCheck(ctx *vfCtx, c c18EvCase) {
	impl, err := GetRoomVersion(RoomVersion(c.Version))
	if err != nil {
		ctx.Unjudged("generator: unknown room version")
		return
	}
	s := c18NewState(ctx, "C18")
	q := c18Querier(c.Querier)
	ctx.Class("version/" + c.Version)

	var un PDU
	var uerr error
	if s.call("NewEventFromUntrustedJSON", func() { un, uerr = impl.NewEventFromUntrustedJSON(c18Copy(c.Event)) }) {
		return
	}
	s.ops = 0
	accepted := c18Accepted(uerr)
	switch {
	case !accepted:
		ctx.Class("untrusted/rejected")
	case un == nil:
		ctx.Class("untrusted/accepted-without-event")
		ctx.Unjudged("persistable validation error without an event: nothing to apply accessors to (the nil event is followed in C18/resp)")
	case uerr != nil:
		ctx.Class("untrusted/accepted-persistable")
	default:
		ctx.Class("untrusted/accepted")
	}

	if !accepted || un == nil {
		// What only the trusted parser lets through is observed, not judged: its contract is JSON
		// that was validated before.
		var tr PDU
		var terr error
		if s.call("NewEventFromTrustedJSON/rejected-input", func() { tr, terr = impl.NewEventFromTrustedJSON(c18Copy(c.Event), false) }) {
			return
		}
		if terr == nil && tr != nil {
			ctx.Class("trusted-only/accepted")
			ctx.Unjudged("event accepted only by NewEventFromTrustedJSON (documented for previously validated JSON): operations observed, panics counted as classes, not judged")
			qs := c18NewState(ctx, "C18")
			qs.quiet = true
			c18Ops(qs, impl, tr, q, "trusted-only")
		}
		return
	}

	var redacted bool
	s.call("Redacted", func() { redacted = un.Redacted() })
	if redacted {
		ctx.Class("untrusted/accepted-as-redacted")
	}
	c18Ops(s, impl, un, q, "untrusted")

	// The trusted parser on what the untrusted parser produced (what a database would hold) ...
	if tr := c18Fresh(s, impl, un, "trusted"); tr != nil {
		ctx.Class("trusted/reparsed")
		c18Ops(s, impl, tr, q, "trusted")
	}
	// ... and on the wire bytes the untrusted parser accepted.
	var tw PDU
	var twerr error
	if !s.call("NewEventFromTrustedJSON/wire", func() { tw, twerr = impl.NewEventFromTrustedJSON(c18Copy(c.Event), false) }) && twerr == nil && tw != nil {
		twOK := c18Light(s, tw, "trusted-wire", false)
		if !s.call("trusted-wire/Redact", func() { tw.Redact() }) {
			c18Light(s, tw, "trusted-wire/Redact", twOK)
		}
	}

	if !c.NoRoom {
		if room := c18GetRoom(c.Version, c.JoinRule, c.Bob); room != nil {
			var state, probes []PDU
			var err1, err2 error
			// (the valid room goes through the library's parser too: a panic there is a finding, not a harness error)
			if s.call("room/NewEventFromTrustedJSON", func() {
				state, err1 = c18ParseAll(c.Version, room.State)
				probes, err2 = c18ParseAll(c.Version, room.Probes)
			}) {
				err1 = fmt.Errorf("panic while parsing the valid room")
			}
			if err1 != nil || err2 != nil {
				ctx.Unjudged(fmt.Sprintf("generator: room does not parse: %v %v", err1, err2))
			} else {
				ctx.Class("embedded")
				c18Embed(s, c.Version, un, state, probes, q)
				c18Cited(s, c.Version, impl, room, un, state, q)
			}
		}
	}
	if s.ops > 0 {
		ctx.NonTrivial()
	}
}

// c18Cited: the accepted event is CITED in the auth_events of two conflicting, otherwise ordinary
// events (other servers choose what their events cite): resolution, ordering and the auth-chain
// walkers look the cited event up and read its type, state key and content.
func c18Cited(s *c18State, version string, impl IRoomVersion, room *c18Room, ev PDU, state []PDU, q spec.UserIDForSender) {
	var evID string
	if s.call("cited/EventID", func() { evID = ev.EventID() }) || evID == "" {
		return
	}
	var citing []PDU
	for i, role := range []string{"join_rules", "join_rules", "history_visibility"} {
		e := c18Base(version, room, role, i)
		e.ID = fmt.Sprintf("$c18citing%d:a.example", i)
		if i != 1 {
			// cited first (walkers that stop at the first match reach it), and by ONE fork only: the event
			// is then in the auth difference, is replayed through the auth rules and applied like state
			e.Auth = append([]string{evID}, e.Auth...)
		}
		tree := c18Finish(version, raJSON(version, e).without("hashes"), false)
		var p PDU
		var perr error
		if s.call("cited/NewEventFromUntrustedJSON", func() { p, perr = impl.NewEventFromUntrustedJSON([]byte(jplain(tree))) }) {
			return
		}
		if !c18Accepted(perr) || p == nil {
			s.ctx.Class("cited/citing-event-rejected")
			return
		}
		citing = append(citing, p)
	}
	s.ctx.Class("cited")
	all := append(append(append([]PDU{}, state...), ev), citing...)
	setA := c18Replace(s, c18Replace(s, state, citing[0]), citing[2])
	setB := c18Replace(s, state, citing[1])
	s.call("cited/ResolveConflictsNew", func() {
		_, _ = ResolveConflictsNew(RoomVersion(version), [][]PDU{setA, setB}, append([]PDU{}, all...), q, c18NotRejected)
	})
	s.call("cited/ResolveConflicts", func() {
		_, _ = ResolveConflicts(RoomVersion(version), append(append([]PDU{}, setA...), setB...), append([]PDU{}, all...), q, c18NotRejected)
	})
	s.call("cited/ReverseTopologicalOrdering", func() { _ = ReverseTopologicalOrdering(append([]PDU{}, all...), TopologicalOrderByAuthEvents) })
	pool := c18NewPool(s, all)
	s.call("cited/VerifyEventAuthChain", func() { _ = VerifyEventAuthChain(context.Background(), citing[0], pool.Provide, q) })
	s.call("cited/VerifyAuthRulesAtState", func() { _ = VerifyAuthRulesAtState(context.Background(), pool, citing[0], true, q) })
	var prov *AuthEvents
	if !s.call("cited/NewAuthEvents", func() { prov, _ = NewAuthEvents(state) }) && prov != nil {
		s.call("cited/Allowed", func() { _ = Allowed(citing[0], prov, q) })
	}
}

// ---------------------------------------------------------------------------------------------
// hostile values

var c18Long300 = strings.Repeat("a", 300)

func c18HostileScalars() []jv {
	return []jv{{K: 'n'}, {K: 't'}, {K: 'f'}, jstr(""), jstr("x"), jstr("50"), jstr(" 7 "), jstr("-1"), jstr("@"), jstr("@:"), jstr("@a:"), jstr(":"),
		jstr(c07Alice), jstr("@nobody:z.example"), jstr("!room:a.example"), jstr("$x"), jstr("join"), jstr("public"), jstr("restricted"), jstr("\x00"), jstr(c18Long300),
		jnum(0), jnum(-1), jnum(1), jnum(50), jnum(100), jnum(9007199254740991), jnum(-9007199254740991)}
}

var c18BigNums = []string{"9007199254740992", "-9007199254740992", "9223372036854775807", "9223372036854775808", "-9223372036854775808", "-9223372036854775809",
	"18446744073709551615", "18446744073709551616", "123456789012345678901234567890", "1e400", "-1e400", "1e-400", "1.5", "-0.5", "0.0", "-0", "1E2", "1e19", "4.9e-324",
	"1.7976931348623157e308", "50.0", "5e1"}

func c18Deep(n int) jv {
	v := jv{K: 'o'}
	for i := 0; i < n; i++ {
		if i%2 == 0 {
			v = jarr(v)
		} else {
			v = jobj("a", v)
		}
	}
	return v
}

func c18HostileContainers() []jv {
	return []jv{jarr(), jarr(jnum(1)), jarr(jstr("x")), jarr(jarr()), jarr(jv{K: 'n'}), jobj(), jobj("a", jobj()), jobj("", jstr("")), c18Deep(24),
		jarr(jobj("public_key", jnum(1))), jarr(jobj("type", jnum(1), "room_id", jv{K: 'n'})), jobj("signed", jstr("x")), jobj("signed", jobj("mxid", jnum(1))),
		jobj(c07Alice, jstr("x")), jobj("", jnum(1)), jobj("@", jnum(1)), jobj("@:", jnum(1)), jobj("x", jnum(1))}
}

var c18HostileKeys = []string{"", "\x00", "a.b", "*", "#", "users", "membership", "creator", "signed", "é", "\\", "\""}

func c18HostileValue(t *rapid.T, orig jv, canonical bool) jv {
	bigW := 3
	if canonical {
		bigW = 1
	}
	switch k := rapid.IntRange(0, 11+bigW).Draw(t, "hv"); {
	case k <= 4:
		return rapid.SampledFrom(c18HostileScalars()).Draw(t, "hscalar")
	case k <= 7:
		return rapid.SampledFrom(c18HostileContainers()).Draw(t, "hcont")
	case k == 8:
		return jarr(orig)
	case k == 9:
		return jobj("x", orig)
	case k == 10:
		if orig.K == '#' {
			return jstr(orig.S)
		}
		return jstr("9007199254740991")
	case k == 11:
		return jv{K: 'n'}
	default:
		return jv{K: '#', S: rapid.SampledFrom(c18BigNums).Draw(t, "hbig")}
	}
}

// c18Mutate replaces, deletes, renames or adds one member somewhere inside v.
func c18Mutate(t *rapid.T, v jv, canonical bool, depth int) jv {
	switch v.K {
	case 'o':
		if len(v.O) > 0 && depth < 6 {
			i := rapid.IntRange(0, len(v.O)-1).Draw(t, "mi")
			out := jv{K: 'o', O: append([]jkv(nil), v.O...)}
			switch rapid.IntRange(0, 11).Draw(t, "mobj") {
			case 0, 1, 2, 3, 4, 5, 6:
				out.O[i].Val = c18Mutate(t, out.O[i].Val, canonical, depth+1)
			case 7:
				out.O = append(out.O[:i:i], out.O[i+1:]...)
			case 8:
				out.O[i].Key = rapid.SampledFrom(c18HostileKeys).Draw(t, "mkey")
			case 9:
				out.O = append(out.O, jkv{rapid.SampledFrom(c18HostileKeys).Draw(t, "mkey"), c18HostileValue(t, out.O[i].Val, canonical)})
			default:
				out.O[i].Val = c18HostileValue(t, out.O[i].Val, canonical)
			}
			return out
		}
	case 'a':
		if len(v.A) > 0 && depth < 6 {
			i := rapid.IntRange(0, len(v.A)-1).Draw(t, "ai")
			out := jv{K: 'a', A: append([]jv(nil), v.A...)}
			switch rapid.IntRange(0, 5).Draw(t, "marr") {
			case 0, 1, 2:
				out.A[i] = c18Mutate(t, out.A[i], canonical, depth+1)
			case 3:
				out.A = append(out.A, c18HostileValue(t, out.A[i], canonical))
			case 4:
				out.A = append(out.A[:i:i], out.A[i+1:]...)
			default:
				out.A[i] = c18HostileValue(t, out.A[i], canonical)
			}
			return out
		}
	}
	return c18HostileValue(t, v, canonical)
}

// ---------------------------------------------------------------------------------------------
// base events per role

var c18Roles = []string{"create", "power_levels", "join_rules", "member", "member", "third_party_invite", "aliases", "redaction", "history_visibility", "message", "custom"}

func c18PseudoKey(label string) string {
	pub, _ := vfKeyFor("pseudo:" + label)
	return base64.RawURLEncoding.EncodeToString(pub)
}

// c18Base returns a sensible event of the given role in the room (variant picks among shapes).
func c18Base(version string, room *c18Room, role string, variant int) raEv {
	tr := vtraits[version]
	all := []string{"create", "pl", "jr", "m:" + c07Creator, "m:" + c07Alice, "m:" + c07Bob, "tpi"}
	var e raEv
	switch role {
	case "create":
		cc := jobj("room_version", jstr(version), "m.federate", jv{K: 't'}, "type", jstr("m.space"),
			"predecessor", jobj("room_id", jstr("!old:a.example"), "event_id", jstr("$old")))
		if tr.CreatorField || variant%2 == 0 {
			cc = cc.with("creator", jstr(c07Creator))
		}
		if tr.Creators || variant%3 == 0 {
			cc = cc.with("additional_creators", jarr(jstr(c07Alice)))
		}
		e = raEv{Type: "m.room.create", Sender: c07Creator, StateKey: raSK(""), Content: cc}
		all = nil
	case "power_levels":
		e = raEv{Type: "m.room.power_levels", Sender: c07Creator, StateKey: raSK(""), Content: c18PLContentFor(version, int64(49+variant%3))}
	case "join_rules":
		jr := []string{"public", "invite", "knock", "restricted", "knock_restricted", "private"}[variant%6]
		e = raEv{Type: "m.room.join_rules", Sender: c07Creator, StateKey: raSK(""), Content: jobj("join_rule", jstr(jr),
			"allow", jarr(jobj("type", jstr("m.room_membership"), "room_id", jstr("!other:a.example"))))}
	case "member":
		shapes := []struct{ sender, target, membership string }{
			{c07Bob, c07Bob, "join"}, {c07Alice, c07Carol, "invite"}, {c07Creator, c07Bob, "ban"}, {c07Alice, c07Bob, "leave"},
			{c07Carol, c07Carol, "knock"}, {c07Bob, c07Bob, "leave"}, {c07Alice, c07Alice, "join"}, {c07Creator, c07Creator, "join"},
		}
		sh := shapes[variant%len(shapes)]
		ct := jobj("membership", jstr(sh.membership), "displayname", jstr("n"), "avatar_url", jstr("mxc://a/b"), "reason", jstr("r"), "is_direct", jv{K: 't'})
		if sh.membership == "join" {
			ct = ct.with("join_authorised_via_users_server", jstr(c07Alice))
		}
		if sh.membership == "invite" {
			ct = ct.with("third_party_invite", jobj("display_name", jstr("c"), "signed", c07Signed(sh.target, "tok", "idkey1", false)))
		}
		if version == "org.matrix.msc4014" && sh.membership == "join" {
			ct = ct.with("mxid_mapping", jobj("user_room_key", jstr(c18PseudoKey("bob")), "user_id", jstr(sh.sender),
				"signatures", jobj("b.example", jobj("ed25519:1", jstr(strings.Repeat("A", 86))))))
		}
		e = raEv{Type: "m.room.member", Sender: sh.sender, StateKey: raSK(sh.target), Content: ct}
	case "third_party_invite":
		e = raEv{Type: "m.room.third_party_invite", Sender: c07Alice, StateKey: raSK("tok"), Content: c18TPIContent()}
	case "aliases":
		e = raEv{Type: "m.room.aliases", Sender: c07Alice, StateKey: raSK("a.example"), Content: jobj("aliases", jarr(jstr("#a:a.example")))}
	case "redaction":
		e = raEv{Type: "m.room.redaction", Sender: c07Alice, Redacts: room.IDs["tpi"], Content: jobj("redacts", jstr(room.IDs["tpi"]), "reason", jstr("r"))}
	case "history_visibility":
		e = raEv{Type: "m.room.history_visibility", Sender: c07Creator, StateKey: raSK(""), Content: jobj("history_visibility", jstr([]string{"shared", "joined", "invited", "world_readable", "bogus"}[variant%5]))}
	case "message":
		e = raEv{Type: "m.room.message", Sender: c07Alice, Content: jobj("body", jstr("hi"), "msgtype", jstr("m.text"),
			"m.relates_to", jobj("event_id", jstr(room.IDs["tpi"]), "rel_type", jstr("m.replace")))}
	default:
		e = raEv{Type: "org.example.custom", Sender: c07Alice, Content: jobj("k", jstr("v"))}
		switch variant % 3 {
		case 1:
			e.StateKey = raSK("")
		case 2:
			e.StateKey = raSK(c07Alice)
		}
	}
	if !(tr.Creators && e.Type == "m.room.create") {
		e.Room = room.RoomID
	}
	if e.Type != "m.room.create" {
		e.Prev = []string{room.last}
		for _, role := range all {
			if id, ok := room.IDs[role]; ok && !(tr.Creators && role == "create") {
				e.Auth = append(e.Auth, id)
			}
		}
	}
	e.Depth = room.depth + 1
	e.TS = 5000
	e.ID = fmt.Sprintf("$c18odd%d:a.example", variant)
	return e
}

// c18Finish hashes the tree the way the receiving side does (over the event without the keys the
// parsers strip first) and adds a reference signature by the sender's server (or by the
// pseudo-ID key itself in the pseudo-ID version).
func c18Finish(version string, ev jv, badHash bool) jv {
	strip := []string{"outlier", "destinations", "age_ts", "unsigned", "hashes", "signatures"}
	if vtraits[version].Format == 2 {
		strip = append(strip, "event_id")
	}
	sum := sha256.Sum256([]byte(jcanon(ev.without(strip...))))
	h := base64.RawStdEncoding.EncodeToString(sum[:])
	if badHash {
		h = base64.RawStdEncoding.EncodeToString(make([]byte, 32))
	}
	if _, has := ev.get("hashes"); !has {
		ev = ev.with("hashes", jobj("sha256", jstr(h)))
	}
	if _, has := ev.get("signatures"); has {
		return ev // a hostile signatures member stays as generated
	}
	sender := evStr(ev, "sender")
	if version == "org.matrix.msc4014" && sender != "" && !strings.HasPrefix(sender, "@") {
		for _, label := range []string{"bob", "alice"} {
			if c18PseudoKey(label) == sender {
				_, priv := vfKeyFor("pseudo:" + label)
				return rsign(version, ev, sender, "ed25519:1", ed25519.PrivateKey(priv))
			}
		}
	}
	return c18Sign(version, ev)
}

// ---------------------------------------------------------------------------------------------
// top-level field mutations (name -> values), used by the random generator and the enumerator

func c18RoomIDValues(version string, room *c18Room) []jv {
	b43 := strings.Repeat("B", 43)
	return []jv{jstr("!:x"), jstr("!:example.com"), jstr("!x"), jstr("!"), jstr(""), jstr("x"), jstr("!a:"), jstr("!a::"), jstr("!a:b:c:d"), jstr("!a:[::1]"), jstr("!a:[::1"),
		jstr("!a:b c"), jstr("!a:b\x00"), jstr("!" + b43[:42]), jstr("!" + b43), jstr("!" + b43 + "B"), jstr("!" + b43[:41] + "+/"), jstr("!" + strings.Repeat("é", 130) + ":h.test"),
		jstr("!" + strings.Repeat("a", 250) + ":a.example"), jstr("!" + c18Long300 + ":x"), jstr("#room:a.example"), jstr("!other:a.example"), jstr(" " + room.RoomID), jstr(room.RoomID + " "),
		jstr("!room:A.EXAMPLE"), jstr("!room:a.example:99999"), jstr("!room:a.example:-1"), jstr("!room:" + c18Long300), jstr("!room:a.example:8448"), jstr("!é:a.example"),
		jstr("!room:[1.2.3.4]"), jstr("!room:1.2.3.4"), jstr("$" + strings.TrimPrefix(room.RoomID, "!")), jstr(room.RoomID),
		{K: 'n'}, jnum(5), jarr(jstr(room.RoomID)), jobj("a", jnum(1)), {K: 't'}}
}

func c18SenderValues(version string) []jv {
	return []jv{jstr(""), jstr("@"), jstr("@:"), jstr("@a"), jstr("@:a.example"), jstr("@a:"), jstr("a:b"), jstr(":"), jstr("@alice:a.example:x"), jstr("@alice:[::1]:8448"),
		jstr("@é:a.example"), jstr("@alice:a.example\n"), jstr("@" + strings.Repeat("a", 250) + ":a.example"), jstr("@" + strings.Repeat("é", 126) + ":a.example"),
		jstr("@ALICE:a.example"), jstr("@alice:a b"), jstr("@nobody:z.example"), jstr(c07Bob), jstr(c07Creator),
		jstr(c18PseudoKey("bob")), jstr(c18PseudoKey("alice")), jstr("AAAA"), jstr("!!!"), jstr(strings.Repeat("A", 43)), jstr(strings.Repeat("A", 44)), jstr(strings.Repeat("_", 43)),
		{K: 'n'}, jnum(1), jarr(), jobj()}
}

func c18StateKeyValues() []jv {
	return []jv{jstr(""), jstr("@"), jstr("@:"), jstr(c07Alice), jstr(c07Bob), jstr("@nobody:z.example"), jstr("tok"), jstr("a.example"), jstr("\x00"), jstr(c18Long300),
		jstr(strings.Repeat("é", 130)), jstr(c18PseudoKey("bob")), jstr("AAAA"), jstr(strings.Repeat("A", 43)), {K: 'n'}, jnum(0), jarr(), jobj(), {K: 'f'}}
}

func c18IDListValues(version string, room *c18Room, self string) []jv {
	sha := jobj("sha256", jstr("47DEQpj8HBSa+/TImW+5JCeuQeRkm5NMpJWZG3hSuFU"))
	c, pl := room.CreateID, room.IDs["pl"]
	ref := func(id string) jv { return jarr(jstr(id), sha) }
	many := jv{K: 'a'}
	for i := 0; i < 25; i++ {
		if vtraits[version].Format == 1 {
			many.A = append(many.A, ref(fmt.Sprintf("$m%d:a.example", i)))
		} else {
			many.A = append(many.A, jstr("$"+strings.Repeat(string(rune('A'+i)), 43)))
		}
	}
	return []jv{{K: 'n'}, jobj(), jstr("x"), jnum(1), jarr(), jarr(jv{K: 'n'}), jarr(jnum(1)), jarr(jstr("")), jarr(jstr("x")), jarr(jstr("$")), jarr(jarr()), jarr(jarr(jstr("$a:b"))),
		jarr(jarr(jstr("$a:b"), jobj())), jarr(jarr(jstr("$a:b"), jobj("sha256", jnum(5)))), jarr(jarr(jstr("$a:b"), jobj("sha256", jstr("!!!")))), jarr(jarr(jnum(1), sha)),
		jarr(jarr(jstr(""), sha)), jarr(jarr(jstr("$a:b"), sha, sha)), jarr(jstr(c), jstr(c)), jarr(ref(c), ref(c)), jarr(jstr(pl)), jarr(ref(pl)), jarr(jstr(self)), jarr(ref(self)),
		jarr(jstr(c), jstr(pl), jstr(room.IDs["jr"]), jstr(room.IDs["m:"+c07Alice])), jarr(ref(c), ref(pl), ref(room.IDs["m:"+c07Alice])), many, jarr(jobj("a", jnum(1)))}
}

var c18DepthValues = []jv{jnum(0), jnum(-1), jnum(9007199254740991), {K: '#', S: "9223372036854775807"}, {K: '#', S: "9223372036854775808"}, {K: '#', S: "-9223372036854775808"},
	{K: '#', S: "1.5"}, {K: '#', S: "1e3"}, {K: '#', S: "1e400"}, jstr("1"), {K: 'n'}, {K: 't'}, jarr(), jobj()}

var c18TSValues = []jv{jnum(0), jnum(-1), jnum(9007199254740991), {K: '#', S: "18446744073709551615"}, {K: '#', S: "18446744073709551616"}, {K: '#', S: "9223372036854775808"},
	{K: '#', S: "1.5"}, {K: '#', S: "1e15"}, jstr("5000"), {K: 'n'}, {K: 'f'}, jarr(), jobj()}

var c18TypeValues = []jv{jstr(""), jstr("m.room.create"), jstr("m.room.member"), jstr("m.room.power_levels"), jstr("m.room.join_rules"), jstr("m.room.third_party_invite"),
	jstr("m.room.aliases"), jstr("m.room.redaction"), jstr("\x00"), jstr(c18Long300), jstr(strings.Repeat("é", 130)), {K: 'n'}, jnum(1), jarr(), jobj()}

func c18StickyValues() []jv {
	d := func(n string) jv { return jobj("duration_ms", jv{K: '#', S: n}) }
	return []jv{d("0"), d("1"), d("3600000"), d("3600001"), d("9007199254740991"), d("-1"), d("-9007199254740991"), jobj("duration_ms", jstr("5")), jobj(), {K: 'n'}, jnum(5), jarr()}
}

func c18HashesValues() []jv {
	return []jv{{K: 'n'}, jobj(), jstr("x"), jobj("sha256", jnum(1)), jobj("sha256", jstr("")), jobj("sha256", jstr("!!!")), jobj("sha256", jstr("AAAA")), jobj("sha256", jv{K: 'n'}),
		jobj("sha256", jobj()), jarr(), jobj("sha256", jstr(strings.Repeat("A", 43))), jobj("md5", jstr("x"))}
}

func c18SignaturesValues() []jv {
	sig86 := strings.Repeat("A", 86)
	return []jv{{K: 'n'}, jobj(), jstr("x"), jarr(), jobj("a.example", jstr("x")), jobj("a.example", jv{K: 'n'}), jobj("a.example", jobj("ed25519:1", jnum(1))),
		jobj("a.example", jobj("ed25519:1", jstr(""))), jobj("a.example", jobj("ed25519:1", jstr("AAAA"))), jobj("a.example", jobj("ed25519:1", jstr("!!!"))),
		jobj("a.example", jobj("ed25519:1", jstr(sig86))), jobj("a.example", jobj("", jstr(sig86))), jobj("a.example", jobj("ed25519", jstr(sig86))),
		jobj("a.example", jobj("rsa:1", jstr(sig86))), jobj("", jobj("ed25519:1", jstr(sig86))), jobj("a.example", jobj("ed25519:1", jstr(sig86), "ed25519:2", jv{K: 'n'})),
		jobj("b.example", jobj("ed25519:1", jobj())), jobj("a.example", jarr())}
}

type c18TopMut struct {
	Key    string
	Values []jv
	Delete bool
}

func c18TopMutations(version string, room *c18Room, self string) []c18TopMut {
	ms := []c18TopMut{
		{Key: "room_id", Values: c18RoomIDValues(version, room), Delete: true},
		{Key: "sender", Values: c18SenderValues(version), Delete: true},
		{Key: "state_key", Values: c18StateKeyValues(), Delete: true},
		{Key: "type", Values: c18TypeValues, Delete: true},
		{Key: "depth", Values: c18DepthValues, Delete: true},
		{Key: "origin_server_ts", Values: c18TSValues, Delete: true},
		{Key: "prev_events", Values: c18IDListValues(version, room, self), Delete: true},
		{Key: "auth_events", Values: c18IDListValues(version, room, self), Delete: true},
		{Key: "redacts", Values: []jv{jstr(""), jstr("x"), jstr("$x"), jstr("$x:"), jstr(":"), jstr(room.CreateID), {K: 'n'}, jnum(1), jarr(), jobj()}},
		{Key: "content", Values: []jv{{K: 'n'}, jstr("x"), jnum(1), jarr(), jarr(jobj()), {K: 't'}}, Delete: true},
		{Key: "hashes", Values: c18HashesValues(), Delete: true},
		{Key: "signatures", Values: c18SignaturesValues(), Delete: true},
		{Key: "unsigned", Values: []jv{{K: 'n'}, jstr("x"), jnum(1), jarr(), jobj("age", jv{K: '#', S: "1e400"}), jobj("a", c18Deep(30))}},
		{Key: "sticky", Values: c18StickyValues()},
		{Key: "msc4354_sticky", Values: c18StickyValues()},
		{Key: "origin", Values: []jv{jstr(""), jstr("x"), {K: 'n'}, jnum(1)}},
		{Key: "membership", Values: []jv{jstr("join"), {K: 'n'}, jnum(1)}},
		{Key: "prev_state", Values: []jv{jarr(), {K: 'n'}, jstr("x")}},
		{Key: "age_ts", Values: []jv{jnum(1), jstr("x")}},
		{Key: "outlier", Values: []jv{{K: 't'}, jstr("x")}},
		{Key: "destinations", Values: []jv{jarr(jstr("x"))}},
		{Key: "_room_version", Values: []jv{jstr(version)}},
		{Key: "_x", Values: []jv{jnum(1)}},
		{Key: "", Values: []jv{jnum(1), jobj()}},
	}
	evIDs := []jv{jstr(""), jstr("$"), jstr("x"), jstr("$x"), jstr("$x:"), jstr(":"), jstr("$:a.example"), jstr(room.CreateID), jstr(room.IDs["pl"]), jstr("$" + c18Long300 + ":a.example"),
		jstr("$é:a.example"), {K: 'n'}, jnum(1), jarr(), jobj()}
	ms = append(ms, c18TopMut{Key: "event_id", Values: evIDs, Delete: true})
	return ms
}

func c18ApplyTop(ev jv, key string, val *jv, dup bool) jv {
	if val == nil {
		return ev.without(key)
	}
	if dup {
		// a second member with the same key (encoding/json takes the last, gjson the first)
		out := jv{K: 'o', O: append(append([]jkv(nil), ev.O...), jkv{key, *val})}
		return out
	}
	return ev.with(key, *val)
}

// ---------------------------------------------------------------------------------------------
// random generator

var c18JoinRules = []string{"public", "public", "invite", "knock", "restricted", "knock_restricted", "-"}
var c18Bobs = []string{"-", "leave", "invite", "join", "ban", "knock"}

func c18GenEvent(t *rapid.T) c18EvCase {
	version := evGenVersion(t)
	tr := vtraits[version]
	c := c18EvCase{Version: version, JoinRule: rapid.SampledFrom(c18JoinRules).Draw(t, "roomJoinRule"), Bob: rapid.SampledFrom(c18Bobs).Draw(t, "roomBob")}
	if version == "org.matrix.msc4014" && rapid.Bool().Draw(t, "nilQuerier") {
		c.Querier = 1
	}
	room := c18GetRoom(version, c.JoinRule, c.Bob)
	role := rapid.SampledFrom(c18Roles).Draw(t, "role")
	variant := rapid.IntRange(0, 23).Draw(t, "variant")
	e := c18Base(version, room, role, variant)

	// content: valid, mutated in 1-3 places, or arbitrary
	switch rapid.IntRange(0, 9).Draw(t, "contentMode") {
	case 0, 1:
	case 2:
		o := jgenOpts{MaxDepth: 3, MaxWidth: 4, IntsOnly: tr.Canonical || rapid.Bool().Draw(t, "ints")}
		e.Content = jgenObject(t, o, 0, "content")
	default:
		n := rapid.IntRange(1, 3).Draw(t, "nmut")
		for i := 0; i < n; i++ {
			e.Content = c18Mutate(t, e.Content, tr.Canonical, 0)
		}
		if e.Content.K != 'o' {
			// raJSON writes {} for non-objects: keep the hostile value through a top-level mutation instead
			e.Content = jobj("x", e.Content)
		}
	}
	ev := raJSON(version, e).without("hashes")
	if e.Redacts == "" && rapid.IntRange(0, 9).Draw(t, "addRedacts") == 0 {
		ev = ev.with("redacts", jstr(room.IDs["tpi"]))
	}
	self := raEventID(version, ev)
	if rapid.IntRange(0, 99).Draw(t, "topMut") < 45 {
		muts := c18TopMutations(version, room, self)
		n := 1
		if rapid.IntRange(0, 4).Draw(t, "twoMut") == 0 {
			n = 2
		}
		for i := 0; i < n; i++ {
			// the identifier fields are the interesting ones: weight them
			var m c18TopMut
			if rapid.IntRange(0, 9).Draw(t, "idField") < 5 {
				m = muts[rapid.IntRange(0, 2).Draw(t, "idFieldWhich")]
			} else {
				m = muts[rapid.IntRange(0, len(muts)-1).Draw(t, "field")]
			}
			k := rapid.IntRange(0, len(m.Values)).Draw(t, "value")
			switch {
			case k == len(m.Values) && m.Delete:
				ev = c18ApplyTop(ev, m.Key, nil, false)
			case k == len(m.Values):
				ev = c18ApplyTop(ev, m.Key, &m.Values[0], false)
			default:
				ev = c18ApplyTop(ev, m.Key, &m.Values[k], rapid.IntRange(0, 14).Draw(t, "dup") == 0)
			}
		}
	}
	ev = c18Finish(version, ev, rapid.IntRange(0, 7).Draw(t, "badHash") == 0)
	c.Event = vfBytes(jplain(ev))
	if rapid.IntRange(0, 5).Draw(t, "respell") == 0 {
		// another presentation of the same value (escapes, whitespace, key order)
		c.Event = vfBytes(jspell(t, ev, "spell"))
	}
	return c
}

// ---------------------------------------------------------------------------------------------
// enumerator: every named hostile constant x every role x every version (size = sampling stride)

func c18EnumHostile(size, shard, nshards int, emit func(c18EvCase)) {
	idx := 0
	pick := func() bool {
		idx++
		return idx%nshards == shard && c07Pick(idx, size)
	}
	// the named seeds first (never sampled away)
	for _, c := range c18SeedEvents() {
		idx++
		if idx%nshards == shard {
			emit(c)
		}
	}
	roles := []string{"create", "power_levels", "join_rules", "member", "third_party_invite", "aliases", "redaction", "history_visibility", "message", "custom"}
	for _, version := range vfVersions {
		canonical := vtraits[version].Canonical
		for ri, role := range roles {
			jr := c18JoinRules[(ri+1)%len(c18JoinRules)]
			bob := c18Bobs[ri%len(c18Bobs)]
			room := c18GetRoom(version, jr, bob)
			variants := []int{0}
			if role == "member" {
				variants = []int{0, 1, 2, 3, 4}
			}
			for _, variant := range variants {
				e := c18Base(version, room, role, variant)
				base := raJSON(version, e).without("hashes")
				self := raEventID(version, base)
				mk := func(ev jv, badHash bool) c18EvCase {
					q := 0
					if version == "org.matrix.msc4014" && idx%2 == 0 {
						q = 1
					}
					return c18EvCase{Version: version, JoinRule: jr, Bob: bob, Querier: q, Event: vfBytes(jplain(c18Finish(version, ev, badHash)))}
				}
				// the plain event, with a good and a bad content hash
				if pick() {
					emit(mk(base, false))
				}
				if pick() {
					emit(mk(base, true))
				}
				// top-level constants
				for _, m := range c18TopMutations(version, room, self) {
					// identifier fields of the events with rules of their own (create, member, power levels)
					// are never sampled away: their auth paths look at the identifier itself
					always := (m.Key == "room_id" || m.Key == "sender" || m.Key == "state_key") && (role == "create" || role == "power_levels" || (role == "member" && variant == 0))
					for i := range m.Values {
						if always {
							idx++
							if idx%nshards == shard {
								emit(mk(c18ApplyTop(base, m.Key, &m.Values[i], false), false))
							}
							continue
						}
						if pick() {
							emit(mk(c18ApplyTop(base, m.Key, &m.Values[i], false), false))
						}
					}
					if m.Delete && pick() {
						emit(mk(c18ApplyTop(base, m.Key, nil, false), false))
					}
				}
				// content constants: every key of the role's content x every hostile value
				var vals []jv
				vals = append(vals, c18HostileScalars()...)
				vals = append(vals, c18HostileContainers()...)
				if !canonical {
					for _, n := range c18BigNums {
						vals = append(vals, jv{K: '#', S: n})
					}
				} else {
					vals = append(vals, jv{K: '#', S: "9007199254740992"}, jv{K: '#', S: "1.5"})
				}
				for _, m := range e.Content.O {
					for _, v := range vals {
						if pick() {
							emit(mk(base.with("content", e.Content.with(m.Key, v)), false))
						}
					}
					if pick() {
						emit(mk(base.with("content", e.Content.without(m.Key)), false))
					}
					// one level down
					if m.Val.K == 'o' {
						for _, mm := range m.Val.O {
							for _, v := range vals {
								if pick() {
									emit(mk(base.with("content", e.Content.with(m.Key, m.Val.with(mm.Key, v))), false))
								}
							}
						}
						for _, hk := range c18HostileKeys {
							if pick() {
								emit(mk(base.with("content", e.Content.with(m.Key, m.Val.with(hk, jnum(1)))), false))
							}
						}
					}
				}
				// arbitrary extra content keys with boundary numbers
				for _, v := range vals {
					if v.K == '#' && pick() {
						emit(mk(base.with("content", e.Content.with("x", v)), false))
					}
				}
			}
		}
	}
}

var _ = spec.MRoomCreate

func init() {
	rule := "non-trivial = the event was accepted by NewEventFromUntrustedJSON (no error, or a persistable validation error together with an event) and at least one post-parse accessor / operation ran on it; distinct = distinct Case JSON. Classes: parser outcome, room version, 'panic/<function>/via/<entry point>' for the first report of a panic in a case, 'again/<function>' for the same function reached through further entry points."
	vfRapid("C18/events", rule, 2500, 120000, 16, c18GenEvent, c18EvCheck)
	vfEnum("C18/hostile-events", rule+" Enumerates every named hostile constant (identifier fields, reference lists, numbers at integer boundaries, wrong JSON types in every content position of every special event type) x 10 roles x 16 versions; size = sampling stride (1 = complete).", 16, 1, 16, c18EnumHostile, c18EvCheck)
}
