//go:build verif

// C15 — join, leave and invite handshakes admit only well-formed, authorised requests.
//
// Shared pieces of the five sub-checks: the cast (servers, users, keys), a scripted key database
// behind a real KeyRing, the reference "validly signed under the strict rule" predicate (independent
// ed25519 over R-canon(R-redact(event)), vf_evgen_test.go), and a small room builder that produces
// signed state events as JSON trees in the room version's wire format (raJSON, vf_rauth_test.go).
package gomatrixserverlib

import (
	"context"
	"encoding/base64"
	"fmt"
	"io"
	"strings"
	"time"

	"github.com/matrix-org/gomatrixserverlib/spec"
	"github.com/matrix-org/util"
	"github.com/sirupsen/logrus"
	"pgregory.net/rapid"
)

const (
	c15Local  = "local.example"  // the server that runs the Handle* functions (resident in the room)
	c15Remote = "remote.example" // the server that sends make_join / send_join / invite (runs PerformJoin)
	c15Other  = "other.example"  // a third server

	c15Creator = "@creator:local.example"
	c15Lara    = "@lara:local.example"
	c15Leo     = "@leo:local.example"
	c15Rita    = "@rita:remote.example"
	c15Otto    = "@otto:other.example"

	c15TS        = int64(1600000000000) // 2020: far away from every clock-dependent boundary
	c15FarFuture = int64(4000000000000)
	c15KeyID     = "ed25519:k1"
)

var c15Users = []string{c15Creator, c15Lara, c15Leo, c15Rita, c15Otto}

// every registered room version except the pseudo-ID one (see the assumptions in props.d/C15.py)
var c15Versions = func() []string {
	var out []string
	for _, v := range vfVersions {
		if v != "org.matrix.msc4014" {
			out = append(out, v)
		}
	}
	return out
}()

func c15Quiet() context.Context {
	l := logrus.New()
	l.SetOutput(io.Discard)
	logrus.SetOutput(io.Discard) // CheckStateResponse logs through the global logger
	return util.ContextWithLogger(context.Background(), logrus.NewEntry(l))
}

func c15Domain(id string) string {
	if i := strings.IndexByte(id, ':'); i >= 0 {
		return id[i+1:]
	}
	return ""
}

// c15UserOK: "@localpart:domain" with a non-empty domain; the localpart may be empty (the
// specification's historical user IDs allow it; which IDs are valid in detail is C17's subject and the
// generators keep away from the grey area).
func c15UserOK(id string) bool {
	if !strings.HasPrefix(id, "@") {
		return false
	}
	i := strings.IndexByte(id, ':')
	return i >= 1 && i < len(id)-1
}

func c15In(l []string, s string) bool {
	for _, x := range l {
		if x == s {
			return true
		}
	}
	return false
}

// ---------------------------------------------------------------------------------------------
// Keys

type c15Key struct {
	Server     string `json:"server"`
	KeyID      string `json:"key_id"`
	Label      string `json:"label"`       // vfKeyFor label of the key the database serves
	ValidUntil int64  `json:"valid_until"` // ms
	Expired    int64  `json:"expired"`     // ms, 0 = not expired
}

func c15KeyLabel(server string) string { return "c15:" + server }

// c15GoodKeys: every server of the cast has one published key that is valid for a long time.
func c15GoodKeys() []c15Key {
	var out []c15Key
	for _, s := range []string{c15Local, c15Remote, c15Other} {
		out = append(out, c15Key{Server: s, KeyID: c15KeyID, Label: c15KeyLabel(s), ValidUntil: c15FarFuture})
	}
	return out
}

// c15KeyDB is the scripted key database behind the real KeyRing handed to the handlers.
type c15KeyDB struct {
	keys []c15Key
}

func (d *c15KeyDB) FetcherName() string { return "c15KeyDB" }

func (d *c15KeyDB) FetchKeys(ctx context.Context, reqs map[PublicKeyLookupRequest]spec.Timestamp) (map[PublicKeyLookupRequest]PublicKeyLookupResult, error) {
	out := map[PublicKeyLookupRequest]PublicKeyLookupResult{}
	for req := range reqs {
		for _, k := range d.keys {
			if k.Server == string(req.ServerName) && k.KeyID == string(req.KeyID) {
				pub, _ := vfKeyFor(k.Label)
				res := PublicKeyLookupResult{VerifyKey: VerifyKey{Key: spec.Base64Bytes(pub)}, ExpiredTS: PublicKeyNotExpired, ValidUntilTS: spec.Timestamp(k.ValidUntil)}
				if k.Expired != 0 {
					res.ExpiredTS = spec.Timestamp(k.Expired)
					res.ValidUntilTS = PublicKeyNotValid
				}
				out[req] = res
			}
		}
	}
	return out, nil
}

func (d *c15KeyDB) StoreKeys(ctx context.Context, results map[PublicKeyLookupRequest]PublicKeyLookupResult) error {
	return nil
}

func c15Ring(keys []c15Key) *KeyRing {
	return &KeyRing{KeyFetchers: nil, KeyDatabase: &c15KeyDB{keys: keys}}
}

// c15SignedBy: the reference predicate "server has validly signed the event" under the strict rule:
// some ed25519 signature of that server on the event verifies (reference projection) under a
// published key that is valid at the event's origin_server_ts (at or before min(valid_until, now+7d);
// strictly before expired_ts for an expired key).
func c15SignedBy(version string, ev jv, server string, keys []c15Key) bool {
	sigs, ok := ev.get("signatures")
	if !ok || sigs.K != 'o' {
		return false
	}
	ent, ok := sigs.get(server)
	if !ok || ent.K != 'o' {
		return false
	}
	ts := int64(-1)
	if t, ok := ev.get("origin_server_ts"); ok && t.K == '#' {
		fmt.Sscan(t.S, &ts)
	}
	limit := time.Now().Add(7 * 24 * time.Hour).UnixMilli()
	for _, m := range ent.O {
		if !strings.HasPrefix(m.Key, "ed25519:") {
			continue
		}
		for _, k := range keys {
			if k.Server != server || k.KeyID != m.Key {
				continue
			}
			if k.Expired != 0 {
				if ts >= k.Expired {
					continue
				}
			} else {
				until := k.ValidUntil
				if until > limit {
					until = limit
				}
				if k.ValidUntil == 0 || ts > until {
					continue
				}
			}
			pub, _ := vfKeyFor(k.Label)
			if rverify(version, ev, server, m.Key, pub) {
				return true
			}
		}
	}
	return false
}

// c15Sign adds the reference signature of a server (its good key) to an event tree.
func c15Sign(version string, ev jv, server string) jv {
	_, priv := vfKeyFor(c15KeyLabel(server))
	return rsign(version, ev, server, c15KeyID, priv)
}

// Signature faults applied to the signature a guard depends on.
var c15SigFaults = []string{"absent", "corrupt", "wrong-key", "expired", "key-expired-ts", "unknown-key-id", "other-server-only"}

// c15ApplySigFault signs ev on behalf of `server` with the named fault and returns the event and
// the key table to publish. fault "" = a good signature.
func c15ApplySigFault(version string, ev jv, server, fault string) (jv, []c15Key) {
	keys := c15GoodKeys()
	switch fault {
	case "":
		return c15Sign(version, ev, server), keys
	case "absent":
		return ev, keys
	case "other-server-only":
		other := c15Other
		if server == c15Other {
			other = c15Remote
		}
		return c15Sign(version, ev, other), keys
	case "corrupt":
		ev = c15Sign(version, ev, server)
		s, _ := c02SigOfTree(ev, server, c15KeyID)
		raw, _ := base64.RawStdEncoding.DecodeString(s)
		raw[7] ^= 0x40
		sigs, _ := ev.get("signatures")
		return ev.with("signatures", sigs.with(server, jobj(c15KeyID, jstr(base64.RawStdEncoding.EncodeToString(raw))))), keys
	case "wrong-key":
		_, priv := vfKeyFor("c15:impostor")
		return rsign(version, ev, server, c15KeyID, priv), keys
	case "unknown-key-id":
		_, priv := vfKeyFor(c15KeyLabel(server))
		return rsign(version, ev, server, "ed25519:unpublished", priv), keys
	case "expired", "key-expired-ts":
		for i := range keys {
			if keys[i].Server == server {
				if fault == "expired" {
					keys[i].ValidUntil = c15TS - 60000 // valid_until_ts before the event's timestamp
				} else {
					keys[i].Expired = c15TS - 60000
				}
			}
		}
		return c15Sign(version, ev, server), keys
	}
	panic("c15: unknown signature fault " + fault)
}

// ---------------------------------------------------------------------------------------------
// Rooms

func c15B64ID(seed string) string {
	return reventID("4", jobj("seed", jstr(seed)))[1:]
}

// c15PlainRoomID: a room ID usable for the version without building a room.
func c15PlainRoomID(version, name string) string {
	if vtraits[version].Creators {
		return "!" + c15B64ID("room:"+name)
	}
	return "!" + name + ":" + c15Local
}

// c15OtherRoom: a room ID other than c15PlainRoomID(version, "room") - an unrelated one, or a near
// miss of it (same opaque part on another server, another letter case, one character more or less).
func c15OtherRoom(t *rapid.T, version string) string {
	room := c15PlainRoomID(version, "room")
	if vtraits[version].Creators {
		flipped := []byte(room)
		if c := flipped[len(flipped)-1]; c >= 'a' && c <= 'z' {
			flipped[len(flipped)-1] = c - 'a' + 'A'
		} else if c >= 'A' && c <= 'Z' {
			flipped[len(flipped)-1] = c - 'A' + 'a'
		} else {
			flipped[len(flipped)-1] = 'A'
		}
		return rapid.SampledFrom([]string{c15PlainRoomID(version, "elsewhere"), c15PlainRoomID(version, "elsewhere"), string(flipped)}).Draw(t, "otherRoom")
	}
	return rapid.SampledFrom([]string{c15PlainRoomID(version, "elsewhere"), "!room:" + c15Remote, "!room:other.example", "!Room:" + c15Local, "!room:" + c15Local + ":8448", "!roo:" + c15Local}).Draw(t, "otherRoom")
}

func c15FakeEventID(version, seed string) string {
	switch vtraits[version].IDFormat {
	case 1:
		return "$" + seed + ":" + c15Local
	case 2:
		return "$" + base64.RawStdEncoding.EncodeToString([]byte(fmt.Sprintf("%-32.32s", seed)))
	}
	return "$" + base64.RawURLEncoding.EncodeToString([]byte(fmt.Sprintf("%-32.32s", seed)))
}

type c15Allow struct {
	Type string `json:"type"`
	Room string `json:"room_id"`
}

type c15Room struct {
	Version     string            `json:"version"`
	JoinRule    string            `json:"join_rule"` // "-" = no join-rules event
	Allow       []c15Allow        `json:"allow,omitempty"`
	HasPL       bool              `json:"has_pl"`
	Invite      int64             `json:"invite_level"`
	Levels      map[string]int64  `json:"levels,omitempty"`
	Members     map[string]string `json:"members"` // user -> membership; the creator is always joined
	AddCreators []string          `json:"add_creators,omitempty"`
}

// c15Builder appends events to a room; each event gets plausible prev/auth events and the
// signature(s) of the servers the protocol requires.
type c15Builder struct {
	Version  string
	RoomID   string
	CreateID string
	Events   []jv           // every event, in order
	State    map[string]int // type + "\x00" + state_key -> index into Events
	IDs      []string       // event IDs, parallel to Events
	depth    int64
}

func c15Tuple(typ, sk string) string { return typ + "\x00" + sk }

func (b *c15Builder) stateID(typ, sk string) (string, bool) {
	i, ok := b.State[c15Tuple(typ, sk)]
	if !ok {
		return "", false
	}
	return b.IDs[i], true
}

// authFor selects the auth events of an event from the current state (the specification's list).
func (b *c15Builder) authFor(e raEv) []string {
	var out []string
	add := func(typ, sk string) {
		if id, ok := b.stateID(typ, sk); ok && !c15In(out, id) {
			out = append(out, id)
		}
	}
	if e.Type == "m.room.create" {
		return nil
	}
	if !vtraits[b.Version].Creators {
		add("m.room.create", "")
	}
	add("m.room.power_levels", "")
	add("m.room.member", e.Sender)
	if e.Type == "m.room.member" && e.StateKey != nil {
		add("m.room.member", *e.StateKey)
		m, _ := raStr(e.Content, "membership")
		if m == "join" || m == "invite" || m == "knock" {
			add("m.room.join_rules", "")
		}
		if via, ok := raStr(e.Content, "join_authorised_via_users_server"); ok && via != "" {
			add("m.room.member", via)
		}
	}
	return out
}

// tree builds (without adding) the next event of the room.
func (b *c15Builder) tree(e raEv) jv {
	b.depth++
	e.Depth = b.depth
	if e.TS == 0 {
		e.TS = c15TS + b.depth
	}
	if e.Type != "m.room.create" {
		e.Room = b.RoomID
		e.Prev = []string{b.IDs[len(b.IDs)-1]}
		if e.Auth == nil {
			e.Auth = b.authFor(e)
		}
	}
	if e.ID == "" {
		e.ID = fmt.Sprintf("$c15e%d:%s", b.depth, c15Domain(e.Sender))
	}
	return raJSON(b.Version, e)
}

func (b *c15Builder) push(ev jv) {
	b.Events = append(b.Events, ev)
	b.IDs = append(b.IDs, raEventID(b.Version, ev))
	if sk, ok := ev.get("state_key"); ok && sk.K == 's' {
		b.State[c15Tuple(evStr(ev, "type"), sk.S)] = len(b.Events) - 1
	}
}

// add builds, signs (sender's server; for an invite also the invited user's server; for a
// restricted join also the authorising user's server) and appends an event.
func (b *c15Builder) add(e raEv) jv {
	ev := b.tree(e)
	ev = c15Sign(b.Version, ev, c15Domain(e.Sender))
	if e.Type == "m.room.member" && e.StateKey != nil {
		if m, _ := raStr(e.Content, "membership"); m == "invite" && c15Domain(*e.StateKey) != c15Domain(e.Sender) {
			ev = c15Sign(b.Version, ev, c15Domain(*e.StateKey))
		}
	}
	b.push(ev)
	return ev
}

func c15NewRoom(version string, addCreators []string, createRoomVersion string) *c15Builder {
	tr := vtraits[version]
	b := &c15Builder{Version: version, State: map[string]int{}}
	cc := jv{K: 'o'}
	if tr.CreatorField {
		cc = cc.with("creator", jstr(c15Creator))
	}
	switch createRoomVersion {
	case "", "=":
		cc = cc.with("room_version", jstr(version))
	case "-":
	default:
		cc = cc.with("room_version", jstr(createRoomVersion))
	}
	if len(addCreators) > 0 {
		ac := jv{K: 'a', A: []jv{}}
		for _, u := range addCreators {
			ac.A = append(ac.A, jstr(u))
		}
		cc = cc.with("additional_creators", ac)
	}
	ce := raEv{Type: "m.room.create", Sender: c15Creator, Room: "!room:" + c15Local, StateKey: raSK(""), Content: cc, ID: "$c15create:" + c15Local, TS: c15TS}
	if tr.Creators {
		ce.Room = ""
	}
	b.depth = 1
	ce.Depth = 1
	create := c15Sign(version, raJSON(version, ce), c15Local)
	b.CreateID = raEventID(version, create)
	b.RoomID = ce.Room
	if tr.Creators {
		b.RoomID = "!" + b.CreateID[1:]
	}
	b.push(create)
	b.add(raEv{Type: "m.room.member", Sender: c15Creator, StateKey: raSK(c15Creator), Content: jobj("membership", jstr("join"))})
	return b
}

func (b *c15Builder) addPL(invite int64, levels map[string]int64, creators []string) {
	users := jv{K: 'o'}
	if !vtraits[b.Version].Creators {
		users = users.with(c15Creator, jnum(100))
	}
	for _, u := range c15Users {
		if l, ok := levels[u]; ok && u != c15Creator && !(vtraits[b.Version].Creators && c15In(creators, u)) {
			users = users.with(u, jnum(l))
		}
	}
	b.add(raEv{Type: "m.room.power_levels", Sender: c15Creator, StateKey: raSK(""), Content: jobj("users", users, "invite", jnum(invite))})
}

func c15JoinRuleContent(rule string, allow []c15Allow) jv {
	c := jobj("join_rule", jstr(rule))
	if allow != nil {
		a := jv{K: 'a', A: []jv{}}
		for _, x := range allow {
			a.A = append(a.A, jobj("type", jstr(x.Type), "room_id", jstr(x.Room)))
		}
		c = c.with("allow", a)
	}
	return c
}

// c15BuildRoom builds the current state of a room from its description. The state is what the
// template builders hand to the handlers and what the reference rules (R-auth) are evaluated on; it
// is not required to be a history every event of which was itself allowed.
func c15BuildRoom(r c15Room) *c15Builder {
	b := c15NewRoom(r.Version, r.AddCreators, "=")
	creators := append([]string{c15Creator}, r.AddCreators...)
	if r.HasPL {
		b.addPL(r.Invite, r.Levels, creators)
	}
	if r.JoinRule != "-" && r.JoinRule != "" {
		b.add(raEv{Type: "m.room.join_rules", Sender: c15Creator, StateKey: raSK(""), Content: c15JoinRuleContent(r.JoinRule, r.Allow)})
	}
	for _, u := range c15Users {
		m, ok := r.Members[u]
		if !ok || m == "-" || u == c15Creator {
			continue
		}
		sender := u
		if m == "invite" || m == "ban" {
			sender = c15Creator
		}
		b.add(raEv{Type: "m.room.member", Sender: sender, StateKey: raSK(u), Content: jobj("membership", jstr(m))})
	}
	return b
}

// stateEvents returns the current state events in a fixed order (order of first appearance).
func (b *c15Builder) stateEvents() []jv {
	var out []jv
	for i, ev := range b.Events {
		sk, ok := ev.get("state_key")
		if !ok || sk.K != 's' {
			continue
		}
		if b.State[c15Tuple(evStr(ev, "type"), sk.S)] == i {
			out = append(out, ev)
		}
	}
	return out
}

func c15ParseAll(version string, evs []jv) ([]PDU, error) {
	out := make([]PDU, 0, len(evs))
	for _, e := range evs {
		p, err := raParsePDU(version, e)
		if err != nil {
			return nil, err
		}
		out = append(out, p)
	}
	return out, nil
}

// c15GenRoom draws a room description; `joiner` is the user whose membership matters most.
func c15GenRoom(t *rapid.T, version, joiner string) c15Room {
	tr := vtraits[version]
	r := c15Room{Version: version, Members: map[string]string{}, Levels: map[string]int64{}}
	if tr.Creators && rapid.IntRange(0, 2).Draw(t, "addCreator") == 0 {
		r.AddCreators = []string{rapid.SampledFrom([]string{c15Lara, c15Leo}).Draw(t, "addCreatorWho")}
	}
	r.HasPL = rapid.IntRange(0, 9).Draw(t, "hasPL") > 0
	r.Invite = rapid.SampledFrom([]int64{0, 0, 50, 50, 100}).Draw(t, "inviteLevel")
	for _, u := range []string{c15Lara, c15Leo, c15Otto} {
		if rapid.Bool().Draw(t, "hasLevel") {
			r.Levels[u] = rapid.SampledFrom([]int64{0, 49, 50, 50, 100}).Draw(t, "level")
		}
	}
	r.JoinRule = rapid.SampledFrom([]string{"public", "public", "invite", "restricted", "restricted", "knock_restricted", "knock", "-"}).Draw(t, "joinRule")
	for _, u := range []string{c15Lara, c15Leo, c15Otto} {
		r.Members[u] = rapid.SampledFrom([]string{"join", "join", "join", "-", "leave", "invite"}).Draw(t, "member")
	}
	r.Members[joiner] = rapid.SampledFrom([]string{"-", "-", "-", "leave", "invite", "join", "ban", "knock"}).Draw(t, "joinerMember")
	return r
}
