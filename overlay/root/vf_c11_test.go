//go:build verif

package gomatrixserverlib

import (
	"fmt"
	"strings"

	"github.com/matrix-org/gomatrixserverlib/spec"
	"pgregory.net/rapid"
)

// C11 — state resolution is order-independent and yields well-formed state; the orderings the
// library returns are ancestor-before-descendant permutations of their distinct inputs.

type c11Case struct {
	G      grCase `json:"room"`
	Seed   uint64 `json:"seed"`   // drives the permutations
	Perms  int    `json:"perms"`  // number of permutations
	Subset []int  `json:"subset"` // events handed to the ordering functions (indices, presentation order)
	Equal  bool   `json:"equal"`  // additionally resolve state sets that are all equal
}

func c11Shuffle[T any](ch *jseedChooser, in []T) []T {
	out := append([]T(nil), in...)
	for i := len(out) - 1; i > 0; i-- {
		j := ch.pick(i + 1)
		out[i], out[j] = out[j], out[i]
	}
	return out
}

func c11Flatten(sets [][]PDU) []PDU {
	seen := map[string]bool{}
	var out []PDU
	for _, s := range sets {
		for _, e := range s {
			if !seen[e.EventID()] {
				seen[e.EventID()] = true
				out = append(out, e)
			}
		}
	}
	return out
}

func c11WellFormed(ctx *vfCtx, label, algo string, p *grParsed, sets [][]PDU, result []PDU) {
	seenKey := map[StateKeyTuple]string{}
	for _, e := range result {
		if e == nil {
			ctx.Fail("C11/"+algo+"/"+label+"/nil-event", "resolved state contains a nil event")
			return
		}
		if _, ok := p.ByID[e.EventID()]; !ok {
			ctx.Fail("C11/"+algo+"/"+label+"/invented-event", "resolved state contains %s which was not supplied", e.EventID())
		}
		k, ok := rrKeyOf(e)
		if !ok {
			ctx.Fail("C11/"+algo+"/"+label+"/non-state-event", "resolved state contains non-state event %s", e.EventID())
			continue
		}
		if prev, dup := seenKey[k]; dup && prev != e.EventID() {
			ctx.Fail("C11/"+algo+"/"+label+"/duplicate-key", "resolved state has two events for (%s, %q): %s and %s", k.EventType, k.StateKey, prev, e.EventID())
		} else if dup {
			ctx.Fail("C11/"+algo+"/"+label+"/duplicate-event", "resolved state lists %s twice", e.EventID())
		}
		seenKey[k] = e.EventID()
	}
	// keys on which all state sets agree keep exactly that event
	type occ struct {
		ids   map[string]bool
		count int
	}
	agree := map[StateKeyTuple]*occ{}
	for _, s := range sets {
		for _, e := range s {
			if k, ok := rrKeyOf(e); ok {
				if agree[k] == nil {
					agree[k] = &occ{ids: map[string]bool{}}
				}
				agree[k].ids[e.EventID()] = true
				agree[k].count++
			}
		}
	}
	for k, o := range agree {
		if len(o.ids) == 1 && o.count == len(sets) {
			for id := range o.ids {
				if seenKey[k] != id {
					ctx.Fail("C11/"+algo+"/"+label+"/agreed-key-changed", "all state sets agree on (%s, %q) = %s but the result has %q", k.EventType, k.StateKey, id, seenKey[k])
				}
			}
		}
	}
}

func c11Check(ctx *vfCtx, c c11Case) {
	p, err := grParse(c.G)
	if err != nil {
		ctx.Unjudged("generator: " + err.Error())
		return
	}
	version := c.G.Version
	algo := c10Algo(version)
	ctx.Class("algo/" + algo)
	isRejected := func(id string) bool { return p.Rejected[id] }
	ch := &jseedChooser{c.Seed}
	auth := c10AuthFor(version, p)
	resolve := func(sets [][]PDU, auth []PDU) ([]PDU, bool) {
		var got []PDU
		var rerr error
		if vfCatch(ctx, "C11/"+algo, func() {
			got, rerr = ResolveConflictsNew(RoomVersion(version), sets, auth, vfUserIDForSender, isRejected)
		}) {
			return nil, false
		}
		if rerr != nil {
			ctx.Fail("C11/"+algo+"/error", "ResolveConflictsNew: %v", rerr)
			return nil, false
		}
		return got, true
	}
	base, ok := resolve(p.Sets, auth)
	if !ok {
		return
	}
	baseIDs := strings.Join(grIDs(base), ",")
	c11WellFormed(ctx, "new", algo, p, p.Sets, base)
	conflictedKeys := 0
	{
		ids := map[StateKeyTuple]map[string]bool{}
		for _, s := range p.Sets {
			for _, e := range s {
				if k, ok := rrKeyOf(e); ok {
					if ids[k] == nil {
						ids[k] = map[string]bool{}
					}
					ids[k][e.EventID()] = true
				}
			}
		}
		for _, m := range ids {
			if len(m) > 1 {
				conflictedKeys++
			}
		}
	}
	if conflictedKeys > 0 && c.Perms >= 2 {
		ctx.NonTrivial()
	}
	for i := 0; i < c.Perms && !ctx.Failed(); i++ {
		// permute sets, events within sets, auth events (with duplicated entries)
		sets := c11Shuffle(ch, p.Sets)
		for j := range sets {
			sets[j] = c11Shuffle(ch, sets[j])
		}
		a := c11Shuffle(ch, auth)
		if algo != "v1" {
			ndup := ch.pick(4)
			for d := 0; d < ndup && len(auth) > 0; d++ {
				a = append(a, auth[ch.pick(len(auth))])
			}
			a = c11Shuffle(ch, a)
		}
		got, ok := resolve(sets, a)
		if !ok {
			return
		}
		if ids := strings.Join(grIDs(got), ","); ids != baseIDs {
			ctx.Fail("C11/"+algo+"/new/order-dependent", "ResolveConflictsNew gives a different state for a permutation of the same input: %s", c10Diff(p, grIDs(got), grIDs(base)))
		}
	}
	// repeated runs on identical input (map iteration order differs per run)
	for i := 0; i < 3 && !ctx.Failed(); i++ {
		got, ok := resolve(p.Sets, auth)
		if !ok {
			return
		}
		if ids := strings.Join(grIDs(got), ","); ids != baseIDs {
			ctx.Fail("C11/"+algo+"/new/run-dependent", "ResolveConflictsNew gives a different state on a repeated run: %s", c10Diff(p, grIDs(got), grIDs(base)))
		}
	}
	// the same events as separately parsed copies (state sets loaded independently share no PDU
	// values): the result is a function of the events, not of the identity of the Go values
	fresh := func(in []PDU) ([]PDU, bool) {
		impl, err := GetRoomVersion(RoomVersion(version))
		if err != nil {
			return nil, false
		}
		out := make([]PDU, 0, len(in))
		for _, e := range in {
			var cp PDU
			var perr error
			if vfCatch(ctx, "C11/"+algo+"/copy", func() {
				if vtraits[version].Format == 1 {
					cp, perr = impl.NewEventFromTrustedJSON(append([]byte(nil), e.JSON()...), false)
				} else {
					cp, perr = impl.NewEventFromTrustedJSONWithEventID(e.EventID(), append([]byte(nil), e.JSON()...), false)
				}
			}) || perr != nil || cp == nil {
				return nil, false
			}
			out = append(out, cp)
		}
		return out, true
	}
	if !ctx.Failed() {
		var sets [][]PDU
		okc := true
		for _, st := range p.Sets {
			f, ok := fresh(st)
			okc = okc && ok
			sets = append(sets, f)
		}
		if fa, ok := fresh(auth); ok && okc {
			ctx.Class("separately-parsed-copies")
			if got, ok := resolve(sets, fa); ok {
				if ids := strings.Join(grIDs(got), ","); ids != baseIDs {
					ctx.Fail("C11/"+algo+"/new/copy-dependent", "ResolveConflictsNew gives a different state when every state set holds its own parsed copies of the events: %s", c10Diff(p, grIDs(got), grIDs(base)))
				}
			}
		}
	}
	// deprecated entry points
	flat := c11Flatten(p.Sets)
	var dep0 string
	for i := 0; i < c.Perms+1 && !ctx.Failed(); i++ {
		events, a := flat, auth
		if i > 0 {
			events, a = c11Shuffle(ch, flat), c11Shuffle(ch, auth)
		}
		var got []PDU
		var rerr error
		if vfCatch(ctx, "C11/"+algo+"/deprecated", func() {
			got, rerr = ResolveConflicts(RoomVersion(version), events, a, vfUserIDForSender, isRejected)
		}) {
			return
		}
		if rerr != nil {
			ctx.Fail("C11/"+algo+"/deprecated/error", "ResolveConflicts: %v", rerr)
			return
		}
		ids := strings.Join(grIDs(got), ",")
		if i == 0 {
			dep0 = ids
			c11WellFormed(ctx, "deprecated", algo, p, [][]PDU{flat}, got)
			continue
		}
		if i == c.Perms && !ctx.Failed() {
			// and once more with every list entry a separately parsed copy
			var concat []PDU // the state sets one after the other, agreed events once per set
			for _, st := range c11Shuffle(ch, p.Sets) {
				concat = append(concat, st...)
			}
			if fe, ok1 := fresh(concat); ok1 {
				if fa, ok2 := fresh(a); ok2 {
					var got2 []PDU
					if vfCatch(ctx, "C11/"+algo+"/deprecated", func() {
						got2, rerr = ResolveConflicts(RoomVersion(version), fe, fa, vfUserIDForSender, isRejected)
					}) {
						return
					}
					if rerr == nil {
						if ids2 := strings.Join(grIDs(got2), ","); ids2 != dep0 {
							ctx.Fail("C11/"+algo+"/deprecated/copy-dependent", "ResolveConflicts (deprecated) gives a different state when the list entries are separately parsed copies: %s", c10Diff(p, grIDs(got2), strings.Split(dep0, ",")))
						}
					}
				}
			}
		}
		if ids != dep0 {
			ctx.Fail("C11/"+algo+"/deprecated/order-dependent", "ResolveConflicts (deprecated) gives a different state for a permutation of the same input: %s", c10Diff(p, grIDs(got), strings.Split(dep0, ",")))
		}
	}
	// the version-1 resolver called directly (ResolveStateConflicts is public): the conflicted events
	// in whatever order the caller has them — grouped by key or not — give the same state, one event
	// per key
	if algo == "v1" && !ctx.Failed() {
		conflicted, _ := splitConflictedUnconflicted(StateResV1, p.Sets)
		var d0 string
		for i := 0; i < 3 && len(conflicted) > 1; i++ {
			in := conflicted
			if i > 0 {
				in = c11Shuffle(ch, conflicted)
			}
			var got []PDU
			if vfCatch(ctx, "C11/v1/direct", func() {
				got = ResolveStateConflicts(append([]PDU(nil), in...), append([]PDU(nil), auth...), vfUserIDForSender)
			}) {
				return
			}
			seen := map[string]bool{}
			for _, e := range got {
				k := e.Type() + "\x00" + *e.StateKey()
				if seen[k] {
					ctx.Fail("C11/v1/direct/duplicate-key", "ResolveStateConflicts returns two events for (%s, %q)", e.Type(), *e.StateKey())
					return
				}
				seen[k] = true
			}
			ids := strings.Join(grIDs(got), ",")
			if i == 0 {
				d0 = ids
				ctx.Class("v1-direct-call")
			} else if ids != d0 {
				ctx.Fail("C11/v1/direct/order-dependent", "ResolveStateConflicts gives a different state for another order of the conflicted events: %s", c10Diff(p, grIDs(got), strings.Split(d0, ",")))
				return
			}
		}
	}
	// all-equal state sets resolve to that state
	if c.Equal && len(p.Sets) > 0 && !ctx.Failed() {
		s0 := p.Sets[int(c.Seed%uint64(len(p.Sets)))]
		eq := [][]PDU{s0, c11Shuffle(ch, s0)}
		if c.Seed%3 == 0 {
			eq = append(eq, c11Shuffle(ch, s0))
		}
		a := auth
		if algo == "v1" {
			a = rrUnconflictedAuthV1(eq)
		}
		got, ok := resolve(eq, a)
		if ok {
			ctx.Class("equal-sets")
			if g, w := strings.Join(grIDs(got), ","), strings.Join(grIDs(s0), ","); g != w {
				ctx.Fail("C11/"+algo+"/equal-sets-changed", "resolving identical state sets does not return that state: %s", c10Diff(p, grIDs(got), grIDs(s0)))
			}
		}
	}
	// orderings
	if len(c.Subset) > 0 && !ctx.Failed() {
		var in []PDU
		for _, i := range c.Subset {
			if i >= 0 && i < len(p.PDUs) {
				in = append(in, p.PDUs[i])
			}
		}
		c11CheckOrdering(ctx, "auth", in, func(x []PDU) []PDU { return ReverseTopologicalOrdering(x, TopologicalOrderByAuthEvents) }, PDU.AuthEventIDs)
		c11CheckOrdering(ctx, "prev", in, func(x []PDU) []PDU { return ReverseTopologicalOrdering(x, TopologicalOrderByPrevEvents) }, PDU.PrevEventIDs)
		c11CheckOrdering(ctx, "headered-auth", in, func(x []PDU) []PDU { return HeaderedReverseTopologicalOrdering(x, TopologicalOrderByAuthEvents) }, PDU.AuthEventIDs)
		c11CheckOrdering(ctx, "headered-prev", in, func(x []PDU) []PDU { return HeaderedReverseTopologicalOrdering(x, TopologicalOrderByPrevEvents) }, PDU.PrevEventIDs)
		// LineariseStateResponse: split the subset into auth and state halves (state events only)
		var aj, sj EventJSONs
		var distinct []PDU
		seen := map[string]bool{}
		for i, e := range in {
			if e.StateKey() == nil || seen[e.EventID()] {
				continue
			}
			seen[e.EventID()] = true
			distinct = append(distinct, e)
			if i%2 == 0 {
				aj = append(aj, spec.RawJSON(e.JSON()))
			} else {
				sj = append(sj, spec.RawJSON(e.JSON()))
			}
		}
		c11CheckOrdering(ctx, "linearise", distinct, func(x []PDU) []PDU {
			return LineariseStateResponse(RoomVersion(version), &stateResponseImpl{authEvents: aj, stateEvents: sj})
		}, PDU.AuthEventIDs)
	}
}

func c11CheckOrdering(ctx *vfCtx, label string, in []PDU, f func([]PDU) []PDU, refs func(PDU) []string) {
	if ctx.Failed() {
		return
	}
	var out []PDU
	if vfCatch(ctx, "C11/ordering/"+label, func() { out = f(append([]PDU(nil), in...)) }) {
		return
	}
	distinct := map[string]bool{}
	dups := false
	for _, e := range in {
		if distinct[e.EventID()] {
			dups = true
		}
		distinct[e.EventID()] = true
	}
	edges, incomparable := 0, 0
	for _, e := range in {
		has := false
		for _, r := range refs(e) {
			if distinct[r] {
				edges++
				has = true
			}
		}
		if !has {
			incomparable++
		}
	}
	if edges > 0 && incomparable >= 2 {
		ctx.NonTrivial()
	}
	cls := "ordering/" + label
	if dups {
		cls += "/with-duplicates"
	}
	ctx.Class(cls)
	pos := map[string]int{}
	for i, e := range out {
		if e == nil {
			ctx.Fail("C11/ordering/"+label+"/nil", "ordering returned a nil event")
			return
		}
		if _, dup := pos[e.EventID()]; dup {
			ctx.Fail("C11/ordering/"+label+"/duplicate-in-output", "ordering lists %s twice", e.EventID())
			return
		}
		pos[e.EventID()] = i
	}
	tag := ""
	if dups {
		tag = "/input-with-duplicates"
	}
	if len(pos) != len(distinct) {
		ctx.Fail("C11/ordering/"+label+"/not-a-permutation"+tag, "ordering returned %d distinct events for %d distinct inputs", len(pos), len(distinct))
		return
	}
	for id := range distinct {
		if _, ok := pos[id]; !ok {
			ctx.Fail("C11/ordering/"+label+"/not-a-permutation"+tag, "input event %s missing from the ordering", id)
			return
		}
	}
	for _, e := range out {
		for _, r := range refs(e) {
			if rp, ok := pos[r]; ok && rp > pos[e.EventID()] {
				ctx.Fail("C11/ordering/"+label+"/ancestor-after-descendant"+tag, "%s (position %d) comes before its referenced ancestor %s (position %d)", e.EventID(), pos[e.EventID()], r, rp)
				return
			}
		}
	}
}

func c11Gen(t *rapid.T) c11Case {
	return c11GenAlgo(t, rapid.IntRange(0, 2).Draw(t, "algo"))
}

func c11GenAlgo(t *rapid.T, algo int) c11Case {
	var g grCase
	switch algo {
	case 0:
		g = c10GenV1(t)
	case 1:
		g = c10GenV2(t)
	default:
		g = c10GenV21(t)
	}
	if len(g.Sets) >= 2 && rapid.IntRange(0, 11).Draw(t, "manySets") == 0 {
		// a room with very many forward extremities: the first sets over and over (64 to 70 of them),
		// the set that differs from them last
		n := rapid.IntRange(63, 70).Draw(t, "manySetsN")
		last := g.Sets[len(g.Sets)-1]
		head := g.Sets[:len(g.Sets)-1]
		var wide [][]int
		for i := 0; i < n; i++ {
			wide = append(wide, head[i%len(head)])
		}
		g.Sets = append(wide, last)
	}
	c := c11Case{G: g, Seed: rapid.Uint64().Draw(t, "seed"), Perms: rapid.IntRange(2, 6).Draw(t, "perms"), Equal: rapid.Bool().Draw(t, "equal")}
	n := rapid.IntRange(0, len(g.Events)).Draw(t, "nsubset")
	for i := 0; i < n; i++ {
		c.Subset = append(c.Subset, rapid.IntRange(0, len(g.Events)-1).Draw(t, "sub"))
	}
	if rapid.IntRange(0, 2).Draw(t, "distinctSubset") > 0 {
		seen := map[int]bool{}
		var d []int
		for _, i := range c.Subset {
			if !seen[i] {
				seen[i] = true
				d = append(d, i)
			}
		}
		c.Subset = d
	}
	return c
}

func init() {
	// the same check per algorithm, as separate sub-properties (separate worker processes: three
	// times the cases in the same wall time)
	for i, name := range []string{"v1", "v2", "v2.1"} {
		i := i
		vfRapid("C11/order-independence/"+name,
			"as C11/order-independence, histories of the room versions that use state resolution "+name+" only",
			1500, 60000, 16, func(t *rapid.T) c11Case { return c11GenAlgo(t, i) }, c11Check)
	}
	vfRapid("C11/order-independence",
		"non-trivial = at least one conflicted key and at least two permutations evaluated; for orderings: the event set has at least one edge and at least two events without an ancestor in the set. distinct = distinct Case JSON. "+fmt.Sprint("Each case: k permutations of (state sets, events within sets, auth events with duplicated entries), 3 repeated runs, the deprecated entry point under permutation, all-equal sets, and 5 ordering functions"),
		1500, 60000, 16, c11Gen, c11Check)
}
