//go:build verif

package gomatrixserverlib

import (
	"bytes"
	"crypto/ed25519"
	"encoding/base64"
	"fmt"
	"sort"
	"strings"
	"sync"

	"pgregory.net/rapid"
)

// C02 — JSON signatures: complete for the signer, sound against tampering.

type c02Signer struct {
	Name  string `json:"name"`
	KeyID string `json:"key_id"`
	Key   string `json:"key"` // label the ed25519 key is derived from
}

type c02Mutation struct {
	Op    string   `json:"op"`   // set | insert | delete | nested
	Path  []string `json:"path"` // member path inside the object (top-level key first)
	Value vfBytes  `json:"value,omitempty"`
}

type c02Case struct {
	Obj      vfBytes      `json:"obj"`     // the object to sign (a presentation)
	Signer   c02Signer    `json:"signer"`  // the entity under test
	Later    []c02Signer  `json:"later"`   // entities that sign afterwards
	Respell  uint64       `json:"respell"` // seed of the re-serialisation of the signed object
	Unsigned vfBytes      `json:"unsigned,omitempty"`
	Wrong    c02Signer    `json:"wrong"` // a different (name, key id, key) to verify against
	Mut      *c02Mutation `json:"mut,omitempty"`
}

func c02Strip(v jv) jv { return v.without("signatures", "unsigned") }

func c02SigOf(v jv, name, keyID string) (string, bool) {
	sigs, ok := v.get("signatures")
	if !ok || sigs.K != 'o' {
		return "", false
	}
	ent, ok := sigs.get(name)
	if !ok || ent.K != 'o' {
		return "", false
	}
	s, ok := ent.get(keyID)
	if !ok || s.K != 's' {
		return "", false
	}
	return s.S, true
}

// c02Apply applies the mutation to the object tree; returns false if the path does not exist.
func c02Apply(v jv, m *c02Mutation, depth int) (jv, bool) {
	if v.K != 'o' || depth >= len(m.Path) {
		return v, false
	}
	key := m.Path[depth]
	last := depth == len(m.Path)-1
	val, _, err := jparse(m.Value)
	if last {
		switch m.Op {
		case "insert":
			if _, exists := v.get(key); exists || err != nil {
				return v, false
			}
			return v.with(key, val), true
		case "set":
			if _, exists := v.get(key); !exists || err != nil {
				return v, false
			}
			return v.with(key, val), true
		case "delete":
			if _, exists := v.get(key); !exists {
				return v, false
			}
			return v.without(key), true
		case "repeat-before":
			// a second member of the same name, with another value, put in FRONT of the signed one
			// (nested objects only: the text changes, and with it what a first-match reader sees)
			if _, exists := v.get(key); !exists || err != nil || depth == 0 {
				return v, false
			}
			out := jv{K: 'o'}
			for _, m2 := range v.O {
				if m2.Key == key {
					out.O = append(out.O, jkv{key, val})
				}
				out.O = append(out.O, m2)
			}
			return out, true
		}
		return v, false
	}
	child, ok := v.get(key)
	if !ok {
		return v, false
	}
	nc, ok := c02Apply(child, m, depth+1)
	if !ok {
		return v, false
	}
	return v.with(key, nc), true
}

func c02Check(ctx *vfCtx, c c02Case) {
	v0, fl, err := jparse(c.Obj)
	if err != nil || v0.K != 'o' || fl.DupKeys || fl.LoneSurrogate {
		ctx.Unjudged("generator produced a non-object / out-of-domain text")
		return
	}
	pub, priv := vfKeyFor(c.Signer.Key)
	name, keyID := c.Signer.Name, KeyID(c.Signer.KeyID)

	var signed []byte
	handed := append([]byte(nil), c.Obj...)
	if vfCatch(ctx, "C02", func() { signed, err = SignJSON(name, keyID, priv, handed) }) {
		return
	}
	if err != nil {
		ctx.Fail("C02/sign-error", "SignJSON(%q) failed: %v", c.Obj, err)
		return
	}
	// the message handed over is the caller's: it reads as before (a second entity signs the same
	// bytes next, a caller compares the signed copy with what it sent)
	if !bytes.Equal(handed, c.Obj) {
		ctx.Fail("C02/message-overwritten-by-signing", "SignJSON changed the message it was given: %q now reads %q", c.Obj, handed)
		return
	}
	ctx.Class("signed")
	if len(c02Strip(v0).O) >= 2 {
		ctx.NonTrivial()
	}
	verify := func(label string, n string, k KeyID, p ed25519.PublicKey, msg []byte) error {
		var verr error
		given := append([]byte(nil), msg...)
		if vfCatch(ctx, "C02", func() { verr = VerifyJSON(n, k, p, given) }) {
			return fmt.Errorf("panic")
		}
		if !bytes.Equal(given, msg) {
			ctx.Fail("C02/message-overwritten-by-verifying", "VerifyJSON (%s) changed the message it was given: %q now reads %q", label, msg, given)
		}
		return verr
	}
	// --- completeness: verifies under the signer's identity
	if e := verify("own", name, keyID, pub, signed); e != nil {
		ctx.Fail("C02/own-signature-rejected", "VerifyJSON rejects the object just signed: %v; obj=%q signed=%q", e, c.Obj, signed)
		return
	}
	vs, sfl, serr := jparse(signed)
	if serr != nil || vs.K != 'o' || sfl.DupKeys {
		ctx.Fail("C02/signed-output-malformed", "SignJSON(%q) returned %q: not a well-formed object (%v, dupkeys=%v)", c.Obj, signed, serr, sfl.DupKeys)
		return
	}
	// --- independent computation of what must have been signed
	want := ed25519.Sign(priv, []byte(jcanon(c02Strip(v0))))
	got, ok := c02SigOf(vs, name, string(keyID))
	if !ok {
		ctx.Fail("C02/signature-missing", "signed object has no signatures[%q][%q]: %q", name, keyID, signed)
		return
	}
	if got != base64.RawStdEncoding.EncodeToString(want) {
		ctx.Fail("C02/signature-not-over-canonical-projection", "signature in %q is not ed25519 over the canonical form of the object minus signatures/unsigned (%q)", signed, jcanon(c02Strip(v0)))
	}
	// --- everything else is preserved: members, earlier signatures, unsigned
	if !jequal(c02Strip(v0), c02Strip(vs)) {
		ctx.Fail("C02/members-changed-by-signing", "signing changed the object's members: %q -> %q", c.Obj, signed)
	}
	if u0, ok := v0.get("unsigned"); ok {
		if u1, ok1 := vs.get("unsigned"); !ok1 || !jequal(u0, u1) {
			ctx.Fail("C02/unsigned-not-preserved", "unsigned changed by signing: %q -> %q", c.Obj, signed)
		}
	}
	if s0, ok := v0.get("signatures"); ok && s0.K == 'o' {
		for _, ent := range s0.O {
			for _, sg := range ent.Val.O {
				if ent.Key == name && sg.Key == string(keyID) {
					continue
				}
				if g, ok := c02SigOf(vs, ent.Key, sg.Key); !ok || g != sg.Val.S {
					ctx.Fail("C02/earlier-signature-lost", "signature of %q/%q lost or changed by signing: %q -> %q", ent.Key, sg.Key, c.Obj, signed)
				}
			}
		}
	}
	// --- ListKeyIDs
	wantIDs := map[string]bool{string(keyID): true}
	if s0, ok := v0.get("signatures"); ok {
		if ent, ok := s0.get(name); ok {
			for _, sg := range ent.O {
				wantIDs[sg.Key] = true
			}
		}
	}
	var ids []KeyID
	if vfCatch(ctx, "C02", func() { ids, err = ListKeyIDs(name, signed) }) {
		return
	}
	gotIDs := map[string]bool{}
	for _, id := range ids {
		gotIDs[string(id)] = true
	}
	if err != nil || len(ids) != len(gotIDs) || fmt.Sprint(c02Keys(gotIDs)) != fmt.Sprint(c02Keys(wantIDs)) {
		ctx.Fail("C02/listkeyids", "ListKeyIDs(%q, %q) = %v, %v; want %v", name, signed, ids, err, c02Keys(wantIDs))
	}

	// --- later signers keep everything valid
	cur := signed
	for i, ls := range c.Later {
		if ls.Name == name && ls.KeyID == string(keyID) {
			continue
		}
		_, lpriv := vfKeyFor(ls.Key)
		var next []byte
		if vfCatch(ctx, "C02", func() { next, err = SignJSON(ls.Name, KeyID(ls.KeyID), lpriv, append([]byte(nil), cur...)) }) {
			return
		}
		if err != nil {
			ctx.Fail("C02/sign-error/later", "later SignJSON #%d failed: %v on %q", i, err, cur)
			return
		}
		cur = next
		ctx.Class("later-signer")
		if e := verify("after-later", name, keyID, pub, cur); e != nil {
			ctx.Fail("C02/invalidated-by-later-signer", "after %q signed too, the first signature no longer verifies: %v; %q", ls.Name, e, cur)
			return
		}
		lpub, _ := vfKeyFor(ls.Key)
		if e := verify("later-own", ls.Name, KeyID(ls.KeyID), lpub, cur); e != nil {
			ctx.Fail("C02/own-signature-rejected/later", "later signer's own signature rejected: %v; %q", e, cur)
		}
	}
	vcur, _, cerr := jparse(cur)
	if cerr != nil {
		ctx.Fail("C02/signed-output-malformed", "after later signers: %q invalid: %v", cur, cerr)
		return
	}
	if u0, ok := v0.get("unsigned"); ok {
		if u1, ok1 := vcur.get("unsigned"); !ok1 || !jequal(u0, u1) {
			ctx.Fail("C02/unsigned-not-preserved", "unsigned changed by later signing: %q -> %q", c.Obj, cur)
		}
	}

	// --- re-serialisation
	re := []byte(jspellSeed(c.Respell, vcur))
	if !bytes.Equal(re, cur) {
		ctx.Class("respelled")
		ctx.NonTrivial()
	}
	if e := verify("respell", name, keyID, pub, re); e != nil {
		ctx.Fail("C02/respelling-rejected", "a re-serialisation of the signed object is rejected: %v; signed=%q respelled=%q", e, cur, re)
	}
	// --- unsigned changed
	if len(c.Unsigned) > 0 {
		if uv, _, uerr := jparse(c.Unsigned); uerr == nil {
			ctx.Class("unsigned-changed")
			alt := []byte(jplain(vcur.with("unsigned", uv)))
			if e := verify("unsigned", name, keyID, pub, alt); e != nil {
				ctx.Fail("C02/unsigned-change-rejected", "changing unsigned invalidated the signature: %v; %q", e, alt)
			}
		}
	}
	// --- soundness: other name / key id / key
	wpub, _ := vfKeyFor(c.Wrong.Key)
	if c.Wrong.Name != name {
		if _, has := c02SigOf(vcur, c.Wrong.Name, string(keyID)); !has {
			if e := verify("wrong-name", c.Wrong.Name, keyID, pub, cur); e == nil {
				ctx.Fail("C02/verifies-for-other-name", "verifies under name %q which never signed: %q", c.Wrong.Name, cur)
			}
		}
	}
	if c.Wrong.KeyID != string(keyID) {
		if _, has := c02SigOf(vcur, name, c.Wrong.KeyID); !has {
			if e := verify("wrong-keyid", name, KeyID(c.Wrong.KeyID), pub, cur); e == nil {
				ctx.Fail("C02/verifies-for-other-keyid", "verifies under key id %q which was never used: %q", c.Wrong.KeyID, cur)
			}
		}
	}
	if c.Wrong.Key != c.Signer.Key {
		ctx.Class("wrong-key")
		if e := verify("wrong-key", name, keyID, wpub, cur); e == nil {
			ctx.Fail("C02/verifies-under-other-key", "verifies under a different public key: %q", cur)
		}
	}
	// --- soundness: public keys of the wrong length are "another key": error, not a panic
	for _, n := range []int{0, 1, 31, 33, 64} {
		bad := make([]byte, n)
		copy(bad, pub)
		if e := verify("bad-key-length", name, keyID, ed25519.PublicKey(bad), cur); e == nil {
			ctx.Fail("C02/verifies-under-other-key/wrong-length", "verifies under a %d-byte public key: %q", n, cur)
		}
	}
	if ctx.Failed() {
		return
	}
	// --- soundness: single-member mutation
	if c.Mut != nil && len(c.Mut.Path) > 0 && c.Mut.Path[0] != "signatures" && c.Mut.Path[0] != "unsigned" {
		mv, applied := c02Apply(vcur, c.Mut, 0)
		if !applied {
			ctx.Class("mutation-not-applicable")
			return
		}
		if jcanon(c02Strip(mv)) == jcanon(c02Strip(vcur)) || jequal(c02Strip(mv), c02Strip(vcur)) {
			ctx.Class("mutation-value-preserving")
			return
		}
		ctx.Class(fmt.Sprintf("mutation/%s/depth%d", c.Mut.Op, len(c.Mut.Path)))
		ctx.NonTrivial()
		mt := []byte(jplain(mv))
		if e := verify("mutated", name, keyID, pub, mt); e == nil {
			ctx.Fail("C02/tampering-accepted/"+c.Mut.Op, "signature still verifies after %s at %v: signed=%q tampered=%q", c.Mut.Op, c.Mut.Path, cur, mt)
		}
	}
}

func c02Keys(m map[string]bool) []string {
	var out []string
	for k := range m {
		out = append(out, k)
	}
	sort.Strings(out)
	return out
}

func c02GenSigner(t *rapid.T, label string) c02Signer {
	return c02Signer{
		Name:  vfGenServerName(t, label+"_name"),
		KeyID: vfGenKeyID(t, label+"_kid"),
		Key:   rapid.SampledFrom([]string{"k1", "k2", "k3", "k4"}).Draw(t, label+"_key"),
	}
}

func c02FakeSig(label string) jv {
	_, priv := vfKeyFor(label)
	return jstr(base64.RawStdEncoding.EncodeToString(ed25519.Sign(priv, []byte(label))))
}

func c02Gen(t *rapid.T) c02Case {
	o := jgenOpts{MaxDepth: 3, MaxWidth: rapid.IntRange(1, 5).Draw(t, "width"), IntsOnly: rapid.IntRange(0, 3).Draw(t, "ints") > 0}
	v := jgenObject(t, o, 0, "obj")
	v = v.without("signatures", "unsigned")
	// well-known member names are mixed in so that paths like "content" exist often
	for _, k := range []string{"content", "type", "sender", "a.b", "hashes", "prev_events"} {
		if rapid.IntRange(0, 3).Draw(t, "wk") == 0 {
			v = v.with(k, jgenWrap(t, jgenValue(t, o, 1, "wkv"), "wkw"))
		}
	}
	c := c02Case{Signer: c02GenSigner(t, "signer"), Wrong: c02GenSigner(t, "wrong"), Respell: rapid.Uint64().Draw(t, "respell")}
	if rapid.IntRange(0, 2).Draw(t, "nearMiss") == 0 {
		// "every other name" includes the names closest to the signer's: other letter case, a trailing
		// dot, an explicit default port, a prefix, padding; likewise for the key ID
		n, k := c.Signer.Name, c.Signer.KeyID
		c.Wrong.Name = rapid.SampledFrom([]string{strings.ToUpper(n), strings.ToUpper(n[:1]) + n[1:], strings.ToLower(n), n + ".", n + ":8448", " " + n, n + " ", n[:len(n)-1], "x" + n, "@alice:" + n}).Draw(t, "nearName")
		c.Wrong.KeyID = rapid.SampledFrom([]string{k, k, strings.ToUpper(k), "Ed25519" + k[7:], k + " ", k + "x", k[:len(k)-1]}).Draw(t, "nearKeyID")
		if rapid.Bool().Draw(t, "nearSameKey") {
			c.Wrong.Key = c.Signer.Key
		}
	}
	if rapid.Bool().Draw(t, "preSigs") {
		sigs := jv{K: 'o'}
		n := rapid.IntRange(1, 2).Draw(t, "npre")
		for i := 0; i < n; i++ {
			who := c02GenSigner(t, "pre")
			ent, _ := sigs.get(who.Name)
			if ent.K != 'o' {
				ent = jv{K: 'o'}
			}
			ent = ent.with(who.KeyID, c02FakeSig(fmt.Sprint("pre", i)))
			sigs = sigs.with(who.Name, ent)
		}
		v = v.with("signatures", sigs)
	} else if rapid.IntRange(0, 7).Draw(t, "nullSignatures") == 0 {
		// what a struct with a nil signature table marshals to: nobody has signed yet
		v = v.with("signatures", jv{K: 'n'})
	}
	if rapid.Bool().Draw(t, "preUnsigned") {
		v = v.with("unsigned", jgenValue(t, o, 1, "uns"))
	}
	if rapid.IntRange(0, 4).Draw(t, "lookAlike") == 0 {
		// members whose names are NOT "signatures" / "unsigned" but fold to them: ordinary members,
		// signed like any other and left alone by signing
		n := rapid.IntRange(1, 2).Draw(t, "nLookAlike")
		for i := 0; i < n; i++ {
			k := rapid.SampledFrom([]string{"Signatures", "SIGNATURES", "ſignatures", "signatureſ", "Unsigned", "UNSIGNED", "unſigned", "signatureS", "unsigneD"}).Draw(t, "lookAlikeKey")
			var val jv
			switch rapid.IntRange(0, 3).Draw(t, "lookAlikeVal") {
			case 0:
				val = jstr("hello")
			case 1:
				val = jobj("other.example", jobj("ed25519:9", c02FakeSig(fmt.Sprint("la", i))))
			case 2:
				val = jobj("x", jnum(2))
			default:
				val = jgenValue(t, o, 1, "lav")
			}
			v = v.with(k, val)
		}
	}
	c.Obj = vfBytes(jspell(t, v, "p"))
	nl := rapid.IntRange(0, 3).Draw(t, "nlater")
	for i := 0; i < nl; i++ {
		c.Later = append(c.Later, c02GenSigner(t, "later"))
	}
	if rapid.Bool().Draw(t, "chgUnsigned") {
		c.Unsigned = vfBytes(jplain(jgenValue(t, o, 1, "uns2")))
	}
	if rapid.IntRange(0, 4).Draw(t, "mutate") > 0 {
		m := &c02Mutation{Op: rapid.SampledFrom([]string{"set", "set", "insert", "delete", "nested"}).Draw(t, "op")}
		body := c02Strip(v)
		pick := func(o jv, label string) (string, jv, bool) {
			if o.K != 'o' || len(o.O) == 0 {
				return "", jv{}, false
			}
			m := o.O[rapid.IntRange(0, len(o.O)-1).Draw(t, label)]
			return m.Key, m.Val, true
		}
		switch m.Op {
		case "insert":
			m.Path = []string{jgenString(t, "newkey") + "x"}
			m.Value = vfBytes(jplain(jgenValue(t, o, 2, "newval")))
		case "nested":
			// descend into a nested object if there is one
			k, val, ok := pick(body, "nk")
			if ok && val.K == 'o' {
				k2, _, ok2 := pick(val, "nk2")
				if ok2 {
					m.Op = rapid.SampledFrom([]string{"set", "delete", "repeat-before"}).Draw(t, "nop")
					m.Path = []string{k, k2}
				} else {
					m.Op = "insert"
					m.Path = []string{k, "zz"}
				}
				m.Value = vfBytes(jplain(jgenValue(t, o, 2, "newval")))
			} else if ok {
				m.Op = "set"
				m.Path = []string{k}
				m.Value = vfBytes(jplain(jgenValue(t, o, 2, "newval")))
			}
		default:
			if k, _, ok := pick(body, "mk"); ok {
				m.Path = []string{k}
				m.Value = vfBytes(jplain(jgenValue(t, o, 2, "newval")))
			}
		}
		if len(m.Path) > 0 && !strings.HasPrefix(m.Op, "nested") {
			c.Mut = m
		}
	}
	return c
}

// C02/concurrent-callers — the verdicts do not depend on who else is signing or verifying at the same
// moment. Several goroutines (real ones) each sign and verify their own object, and verify a tampered
// copy, in a loop; every verdict and every signed text must be what the same calls give one at a
// time. A correct tree cannot fail this whatever the schedule; a tree that shares scratch state between
// calls fails it with high probability per case (and certainly under the race detector, C19's job).
type c02ConcCase struct {
	Objs   []vfBytes   `json:"objs"`
	Signer []c02Signer `json:"signers"`
	Rounds int         `json:"rounds"`
}

func c02ConcGen(t *rapid.T) c02ConcCase {
	var c c02ConcCase
	n := rapid.IntRange(3, 8).Draw(t, "goroutines")
	o := jgenOpts{MaxDepth: 3, MaxWidth: 4, IntsOnly: true}
	for i := 0; i < n; i++ {
		v := jgenObject(t, o, 0, "obj").without("signatures", "unsigned").with("who", jnum(int64(i))).with("pad", jstr(strings.Repeat("x", rapid.IntRange(0, 300).Draw(t, "pad"))))
		c.Objs = append(c.Objs, vfBytes(jspell(t, v, "p")))
		c.Signer = append(c.Signer, c02GenSigner(t, "signer"))
	}
	c.Rounds = rapid.IntRange(20, 60).Draw(t, "rounds")
	return c
}

func c02ConcCheck(ctx *vfCtx, c c02ConcCase) {
	type want struct {
		signed   string
		tampered []byte
	}
	wants := make([]want, len(c.Objs))
	for i, raw := range c.Objs {
		v, fl, err := jparse(raw)
		if err != nil || v.K != 'o' || fl.DupKeys || fl.LoneSurrogate {
			ctx.Unjudged("generator produced a non-object / out-of-domain text")
			return
		}
		_, priv := vfKeyFor(c.Signer[i].Key)
		var signed []byte
		if vfCatch(ctx, "C02/conc", func() {
			signed, err = SignJSON(c.Signer[i].Name, KeyID(c.Signer[i].KeyID), priv, append([]byte(nil), raw...))
		}) {
			return
		}
		if err != nil {
			ctx.Unjudged("sequential signing failed (C02/sign-verify's business)")
			return
		}
		vs, _, _ := jparse(signed)
		wants[i] = want{signed: string(signed), tampered: []byte(jplain(vs.with("who", jnum(int64(i+1000)))))}
	}
	ctx.NonTrivial()
	ctx.Class(fmt.Sprintf("goroutines=%d", len(c.Objs)))
	errs := make([]string, len(c.Objs))
	var wg sync.WaitGroup
	start := make(chan struct{})
	for i := range c.Objs {
		i := i
		wg.Add(1)
		go func() {
			defer wg.Done()
			defer func() {
				if r := recover(); r != nil {
					errs[i] = fmt.Sprintf("panic: %v", r)
				}
			}()
			pub, priv := vfKeyFor(c.Signer[i].Key)
			name, keyID := c.Signer[i].Name, KeyID(c.Signer[i].KeyID)
			<-start
			for r := 0; r < c.Rounds && errs[i] == ""; r++ {
				signed, err := SignJSON(name, keyID, priv, append([]byte(nil), c.Objs[i]...))
				switch {
				case err != nil:
					errs[i] = fmt.Sprintf("round %d: SignJSON fails next to other callers: %v", r, err)
				case string(signed) != wants[i].signed:
					errs[i] = fmt.Sprintf("round %d: SignJSON returns %q next to other callers, %q on its own", r, signed, wants[i].signed)
				case VerifyJSON(name, keyID, pub, append([]byte(nil), signed...)) != nil:
					errs[i] = fmt.Sprintf("round %d: the correctly signed object is rejected next to other callers", r)
				case VerifyJSON(name, keyID, pub, append([]byte(nil), wants[i].tampered...)) == nil:
					errs[i] = fmt.Sprintf("round %d: the object with a changed member verifies next to other callers", r)
				}
			}
		}()
	}
	close(start)
	wg.Wait()
	for i, e := range errs {
		if e != "" {
			ctx.Fail("C02/verdict-depends-on-concurrent-callers", "goroutine %d of %d: %s", i, len(c.Objs), e)
			return
		}
	}
}

func init() {
	vfRapid("C02/concurrent-callers", "every case: 3..8 goroutines sign, verify and verify a tampered copy of their own object 20..60 times at the same time; distinct = distinct Case JSON",
		40, 400, 4, c02ConcGen, c02ConcCheck)
	vfRapid("C02/sign-verify",
		"non-trivial = the object has >= 2 members besides signatures/unsigned and the step applied is a value-changing single-member mutation or a re-serialisation that changes at least one byte; distinct = distinct Case JSON",
		2000, 200000, 16, c02Gen, c02Check)
}

// ---------------------------------------------------------------------------------------------
// C02/checksum-twins — pairs of objects of the same length whose canonical texts have the same 32-bit
// checksum (CRC-32 IEEE / Castagnoli, FNV-1 / FNV-1a; found by search, fixed here). One is signed and
// verified, then the other is presented with the first one's signature (and the other way round):
// "any change to any member" includes the changes a coarse fingerprint of the text does not see.

type c02TwinCase struct {
	Sum   string  `json:"checksum"`
	A     vfBytes `json:"a"`
	B     vfBytes `json:"b"`
	First string  `json:"first"` // which of the two is signed and verified first: a | b
}

var c02Twins = [][3]string{
	{"crc32-ieee", `{"amount":10,"payee":"alice","ref":"AAAAAAAA"}`, `{"amount":99,"payee":"mallo","ref":"FCtagSAA"}`},
	{"crc32-castagnoli", `{"amount":10,"payee":"alice","ref":"AAAAAAAA"}`, `{"amount":99,"payee":"mallo","ref":"HTUMt1AA"}`},
	{"fnv32a", `{"amount":10,"payee":"alice","ref":"AAAAAAAA"}`, `{"amount":99,"payee":"mallo","ref":"FBFCKpAA"}`},
	{"fnv32", `{"amount":10,"payee":"alice","ref":"AAAAAAAA"}`, `{"amount":99,"payee":"mallo","ref":"HBXycjAA"}`},
}

func c02EnumTwins(size, shard, nshards int, emit func(c02TwinCase)) {
	for i, tw := range c02Twins {
		if i%nshards != shard {
			continue
		}
		emit(c02TwinCase{Sum: tw[0], A: vfBytes(tw[1]), B: vfBytes(tw[2]), First: "a"})
		emit(c02TwinCase{Sum: tw[0], A: vfBytes(tw[1]), B: vfBytes(tw[2]), First: "b"})
	}
}

func c02TwinCheck(ctx *vfCtx, c c02TwinCase) {
	ctx.NonTrivial()
	ctx.Class("checksum/" + c.Sum)
	genuine, forged := []byte(c.A), []byte(c.B)
	if c.First == "b" {
		genuine, forged = forged, genuine
	}
	pub, priv := vfKeyFor("k1")
	const name, keyID = "twins.example", KeyID("ed25519:t")
	var signed []byte
	var err error
	if vfCatch(ctx, "C02/twins", func() { signed, err = SignJSON(name, keyID, priv, append([]byte(nil), genuine...)) }) {
		return
	}
	if err != nil {
		ctx.Fail("C02/sign-error", "SignJSON(%q) failed: %v", genuine, err)
		return
	}
	var v1, v2, v3 error
	sv, _, perr := jparse(signed)
	fv, _, ferr := jparse(forged)
	if perr != nil || ferr != nil {
		ctx.Unjudged("generator: twins do not parse")
		return
	}
	sigs, _ := sv.get("signatures")
	withSig := []byte(jplain(fv.with("signatures", sigs)))
	if vfCatch(ctx, "C02/twins", func() {
		v1 = VerifyJSON(name, keyID, pub, append([]byte(nil), signed...))
		v2 = VerifyJSON(name, keyID, pub, append([]byte(nil), withSig...))
		v3 = VerifyJSON(name, keyID, pub, append([]byte(nil), signed...))
	}) {
		return
	}
	if v1 != nil || v3 != nil {
		ctx.Fail("C02/own-signature-rejected", "the signed object does not verify (before the twin: %v, after it: %v); %q", v1, v3, signed)
		return
	}
	if v2 == nil {
		ctx.Fail("C02/tamper-accepted/same-length-same-checksum", "an object of the same length and the same %s checksum as the signed one verifies with its signature: signed %q, presented %q", c.Sum, genuine, withSig)
		return
	}
	// the canonical forms themselves
	var c1, c2 []byte
	if vfCatch(ctx, "C02/twins", func() {
		c1, _ = CanonicalJSON(append([]byte(nil), genuine...))
		c2, _ = CanonicalJSON(append([]byte(nil), forged...))
	}) {
		return
	}
	if string(c1) != string(genuine) || string(c2) != string(forged) {
		ctx.Fail("C02/twins/canonical-form-of-the-other", "CanonicalJSON(%q) = %q, CanonicalJSON(%q) = %q (both texts are canonical already)", genuine, c1, forged, c2)
	}
}

func init() {
	vfEnum("C02/checksum-twins", "every case: two objects of equal length and equal 32-bit checksum, one signed, the other presented with its signature; distinct = distinct Case JSON", 1, 1, 1, c02EnumTwins, c02TwinCheck)
}
