//go:build verif

package gomatrixserverlib

// C06/repeated-content-keys — membership events whose content REPEATS "membership" and / or
// "join_authorised_via_users_server" with different values. Which of two equal keys counts is not
// something JSON defines, and the decoders in use disagree (encoding/json: the last non-null one;
// gjson: the first). Whatever the library makes of such an event, the servers whose signatures
// VerifyEventSignatures demands must be those of the content AS THE AUTHORISATION RULES READ IT
// (NewMemberContentFromEvent): otherwise a join is authorised by a resident user whose server never
// signed it. Refusing the event when it is parsed is the other sound outcome.
//
// The oracle is a consistency relation inside the library (signature requirement vs. auth-rule
// reading); the signing itself is done with the library, the question here is only WHO must have
// signed. Events come in through NewEventFromUntrustedJSON.

import (
	"context"
	"crypto/sha256"
	"fmt"
	"sort"
	"strings"
	"time"

	"github.com/matrix-org/gomatrixserverlib/spec"
	"github.com/tidwall/sjson"
	"pgregory.net/rapid"
)

type c06RepCase struct {
	Version string `json:"version"`
	// Content is the content object as text, keys possibly repeated
	Content  string   `json:"content"`
	Sender   string   `json:"sender"`
	StateKey string   `json:"state_key"`
	Signers  []string `json:"signers"`
	Shape    string   `json:"shape"`
}

var c06RepServers = []string{"alice.example", "bob.example", "resident.example", "decoy.example"}

type c06RepDB struct{}

func (c06RepDB) FetcherName() string { return "c06-repeat-database" }
func (c06RepDB) FetchKeys(_ context.Context, reqs map[PublicKeyLookupRequest]spec.Timestamp) (map[PublicKeyLookupRequest]PublicKeyLookupResult, error) {
	out := map[PublicKeyLookupRequest]PublicKeyLookupResult{}
	for r := range reqs {
		if r.KeyID != "ed25519:rep" {
			continue
		}
		for _, s := range c06RepServers {
			if string(r.ServerName) == s {
				pub, _ := vfKeyFor("c06rep:" + s)
				out[r] = PublicKeyLookupResult{VerifyKey: VerifyKey{Key: spec.Base64Bytes(pub)}, ValidUntilTS: spec.AsTimestamp(time.Now().Add(24 * time.Hour)), ExpiredTS: PublicKeyNotExpired}
			}
		}
	}
	return out, nil
}
func (c06RepDB) StoreKeys(context.Context, map[PublicKeyLookupRequest]PublicKeyLookupResult) error {
	return nil
}

func c06RepGen(t *rapid.T) c06RepCase {
	c := c06RepCase{Version: rapid.SampledFrom(c06Versions).Draw(t, "version")}
	str := func(s string) string { return jplain(jstr(s)) }
	mem := func(v string) string { return `"membership":` + str(v) }
	via := func(u string) string { return `"join_authorised_via_users_server":` + str(u) }
	c.Sender = "@alice:alice.example"
	var parts []string
	switch c.Shape = rapid.SampledFrom([]string{"join/membership-repeated", "join/via-repeated", "join/both-repeated", "invite/membership-repeated", "join/via-then-null", "plain"}).Draw(t, "shape"); c.Shape {
	case "join/membership-repeated":
		c.StateKey = c.Sender
		d := rapid.SampledFrom([]string{"leave", "knock", "invite"}).Draw(t, "decoy")
		parts = []string{via("@admin:resident.example"), mem(d), mem("join")}
		if rapid.Bool().Draw(t, "decoyLast") {
			parts = []string{via("@admin:resident.example"), mem("join"), mem(d)}
		}
	case "join/via-repeated":
		c.StateKey = c.Sender
		parts = []string{via("@x:decoy.example"), mem("join"), via("@admin:resident.example")}
		if rapid.Bool().Draw(t, "decoyLast") {
			parts = []string{via("@admin:resident.example"), mem("join"), via("@x:decoy.example")}
		}
	case "join/both-repeated":
		c.StateKey = c.Sender
		parts = []string{via("@x:decoy.example"), mem("leave"), via("@admin:resident.example"), mem("join")}
	case "join/via-then-null":
		c.StateKey = c.Sender
		parts = []string{via("@admin:resident.example"), mem("join"), `"join_authorised_via_users_server":null`}
		if rapid.Bool().Draw(t, "nullFirst") {
			parts = []string{`"join_authorised_via_users_server":null`, mem("join"), via("@admin:resident.example")}
		}
	case "invite/membership-repeated":
		c.StateKey = "@bob:bob.example"
		d := rapid.SampledFrom([]string{"leave", "join", "ban"}).Draw(t, "decoy")
		parts = []string{mem(d), mem("invite")}
		if rapid.Bool().Draw(t, "decoyLast") {
			parts = []string{mem("invite"), mem(d)}
		}
	default:
		// no repetition: the same machinery on ordinary content (the leg must also pass there)
		c.StateKey = c.Sender
		parts = []string{via("@admin:resident.example"), mem("join")}
	}
	if rapid.Bool().Draw(t, "filler") {
		parts = append(parts, `"displayname":"rep"`)
	}
	c.Content = "{" + strings.Join(parts, ",") + "}"
	// who signs: always the sender's server, the others drawn
	c.Signers = []string{"alice.example"}
	for _, s := range c06RepServers[1:] {
		if rapid.IntRange(0, 2).Draw(t, "signs") == 0 {
			c.Signers = append(c.Signers, s)
		}
	}
	return c
}

func c06RepCheck(ctx *vfCtx, c c06RepCase) {
	impl, err := GetRoomVersion(RoomVersion(c.Version))
	if err != nil {
		ctx.Unjudged("unknown room version")
		return
	}
	ctx.Class("shape/" + c.Shape)
	tr := vtraits[c.Version]
	room := "!room:resident.example"
	ts := time.Now().UnixMilli()
	raw := fmt.Sprintf(`{"type":"m.room.member","state_key":%s,"sender":%s,"room_id":%s,"origin":"alice.example","origin_server_ts":%d,"depth":9,"prev_events":[],"auth_events":[],"content":%s}`,
		jplain(jstr(c.StateKey)), jplain(jstr(c.Sender)), jplain(jstr(room)), ts, c.Content)
	if tr.IDFormat == 1 {
		raw, _ = sjson.Set(raw, "event_id", "$rep:alice.example")
	}
	if tr.Creators {
		// the room ID is the create event's ID here; any well-formed one will do
		raw, _ = sjson.Set(raw, "room_id", "!"+strings.Repeat("A", 43))
	}
	var wire []byte
	var refused error
	if vfCatch(ctx, "C06/repeat/build", func() {
		js, err := CanonicalJSON([]byte(raw))
		if err != nil {
			refused = err
			return
		}
		hash := sha256.Sum256(js)
		if js, err = sjson.SetBytes(js, "hashes.sha256", spec.Base64Bytes(hash[:]).Encode()); err != nil {
			refused = err
			return
		}
		ev, err := impl.NewEventFromTrustedJSON(js, false)
		if err != nil {
			refused = err
			return
		}
		for _, s := range c.Signers {
			_, priv := vfKeyFor("c06rep:" + s)
			ev = ev.Sign(s, "ed25519:rep", priv)
		}
		wire = ev.JSON()
	}) {
		return
	}
	if refused != nil {
		ctx.Class("not-buildable")
		ctx.Unjudged("the library cannot hash / sign the text: " + refused.Error())
		return
	}
	var ev PDU
	if vfCatch(ctx, "C06/repeat/parse", func() { ev, err = impl.NewEventFromUntrustedJSON(wire) }) {
		return
	}
	if err != nil {
		ctx.Class("outcome/refused-when-parsed")
		if c.Shape == "plain" {
			ctx.Fail("C06/repeated-content-keys/plain-event-refused", "an ordinary join signed by %v was refused when parsed: %v", c.Signers, err)
		}
		return
	}
	if ev.Redacted() {
		ctx.Unjudged("content hash mismatch: the event was redacted when parsed")
		return
	}
	ctx.NonTrivial()
	var mc MemberContent
	if vfCatch(ctx, "C06/repeat/content", func() { mc, err = NewMemberContentFromEvent(ev) }) {
		return
	}
	if err != nil {
		ctx.Class("outcome/content-not-readable-by-the-auth-rules")
		ctx.Unjudged("the authorisation rules cannot read the content")
		return
	}
	required := map[string]bool{"alice.example": true}
	if mc.Membership == "invite" {
		if d, ok := c06Domain(c.StateKey, '@'); ok {
			required[d] = true
		}
	}
	if mc.Membership == "join" && mc.AuthorisedVia != "" && tr.Restricted {
		d, ok := c06Domain(mc.AuthorisedVia, '@')
		if !ok {
			ctx.Unjudged("authorising user is not a user ID")
			return
		}
		required[d] = true
	}
	signed := map[string]bool{}
	for _, s := range c.Signers {
		signed[s] = true
	}
	var missing []string
	for s := range required {
		if !signed[s] {
			missing = append(missing, s)
		}
	}
	sort.Strings(missing)
	ctx.Class(fmt.Sprintf("auth-rules-read/membership=%s,via=%v", mc.Membership, mc.AuthorisedVia != ""))
	var verr error
	if vfCatch(ctx, "C06/repeat/verify", func() {
		verr = VerifyEventSignatures(context.Background(), ev, &KeyRing{KeyDatabase: c06RepDB{}}, vfUserIDForSender)
	}) {
		return
	}
	switch {
	case len(missing) > 0 && verr == nil:
		ctx.Class("expect/refuse")
		ctx.Fail("C06/repeated-content-keys/accepted-without-a-required-signature",
			"the authorisation rules read membership %q authorised via %q, so %v must have signed; signed by %v only, yet VerifyEventSignatures succeeds; content=%s",
			mc.Membership, mc.AuthorisedVia, missing, c.Signers, c.Content)
	case len(missing) == 0 && verr != nil:
		ctx.Class("expect/accept")
		ctx.Fail("C06/repeated-content-keys/refused-although-every-required-server-signed",
			"the authorisation rules read membership %q authorised via %q; every server that has to sign did (%v), yet: %v; content=%s",
			mc.Membership, mc.AuthorisedVia, c.Signers, verr, c.Content)
	case len(missing) == 0:
		ctx.Class("expect/accept")
	default:
		ctx.Class("expect/refuse")
	}
}

func init() {
	vfRapid("C06/repeated-content-keys",
		"the event was accepted by NewEventFromUntrustedJSON with its content hash intact, so that the signature requirement can be compared with the content as the authorisation rules read it. distinct = distinct Case JSON",
		400, 4000, 4, c06RepGen, c06RepCheck)
}
