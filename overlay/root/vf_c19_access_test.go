//go:build verif

package gomatrixserverlib

// C19/accessors — read-only accessors of ONE parsed event called from k goroutines released by a
// barrier (first-time calls). Oracles: no race-detector report (child process, see
// vf_c19_sched_test.go); every result equals what a single goroutine gets from an event parsed
// from the same bytes (asked on a cold event and on one whose EventID() has been called before:
// either is what some sequential order of the same calls would give).

import (
	"crypto/ed25519"
	"encoding/json"
	"fmt"
	"github.com/tidwall/sjson"
	"sync"
	"time"

	"github.com/matrix-org/gomatrixserverlib/spec"
	"pgregory.net/rapid"
)

type c19AccCase struct {
	Version string  `json:"version"`
	Kind    string  `json:"kind"`  // create | member | message | power | joinrules | histvis | redaction
	Parse   string  `json:"parse"` // untrusted | trusted | trusted-id
	Warm    bool    `json:"warm"`  // EventID() is called once before the goroutines start
	Progs   [][]int `json:"progs"` // per goroutine: indices into c19Accessors
}

type c19Accessor struct {
	Name string
	Call func(PDU) string
}

func c19Str(v any, err error) string {
	if err != nil {
		return "error: " + err.Error()
	}
	b, jerr := json.Marshal(v)
	if jerr != nil {
		return fmt.Sprintf("%#v", v)
	}
	return string(b)
}

var c19StickyNow = time.Unix(1700000000, 0)

var c19Accessors = []c19Accessor{
	{"EventID", func(e PDU) string { return e.EventID() }},
	{"RoomID", func(e PDU) string { r := e.RoomID(); return r.String() }},
	{"ToHeaderedJSON", func(e PDU) string { b, err := e.ToHeaderedJSON(); return c19Str(string(b), err) }},
	{"Content", func(e PDU) string { return string(e.Content()) }},
	{"AuthEventIDs", func(e PDU) string { return c19Str(e.AuthEventIDs(), nil) }},
	{"PrevEventIDs", func(e PDU) string { return c19Str(e.PrevEventIDs(), nil) }},
	{"Type", func(e PDU) string { return e.Type() }},
	{"StateKey", func(e PDU) string { return c19Str(e.StateKey(), nil) }},
	{"StateKeyEquals", func(e PDU) string { return fmt.Sprint(e.StateKeyEquals(""), e.StateKeyEquals("@u:c19.example")) }},
	{"SenderID", func(e PDU) string { return string(e.SenderID()) }},
	{"JSON", func(e PDU) string { return string(e.JSON()) }},
	{"Version", func(e PDU) string { return string(e.Version()) }},
	{"Redacted", func(e PDU) string { return fmt.Sprint(e.Redacted()) }},
	{"Redacts", func(e PDU) string { return e.Redacts() }},
	{"OriginServerTS", func(e PDU) string { return fmt.Sprint(e.OriginServerTS()) }},
	{"Depth", func(e PDU) string { return fmt.Sprint(e.Depth()) }},
	{"Unsigned", func(e PDU) string { return string(e.Unsigned()) }},
	{"Membership", func(e PDU) string { return c19Str(e.Membership()) }},
	{"PowerLevels", func(e PDU) string { return c19Str(e.PowerLevels()) }},
	{"JoinRule", func(e PDU) string { return c19Str(e.JoinRule()) }},
	{"HistoryVisibility", func(e PDU) string { return c19Str(e.HistoryVisibility()) }},
	{"IsSticky", func(e PDU) string { return fmt.Sprint(e.IsSticky(c19StickyNow, c19StickyNow)) }},
	{"StickyEndTime", func(e PDU) string { return e.StickyEndTime(c19StickyNow).UTC().String() }},
	{"MarshalJSON", func(e PDU) string { return c19Str(json.Marshal(e)) }},
}

// accessors whose first call on a freshly parsed v3+ event reads or writes the lazily cached ID
func c19TouchesID(c c19AccCase, idx int) bool {
	switch c19Accessors[idx].Name {
	case "EventID", "ToHeaderedJSON":
		return true
	case "RoomID":
		return c.Kind == "create" && (c.Version == "12" || c.Version == "org.matrix.hydra.11")
	}
	return false
}

// (the three event formats - v1/v2, v3..v11, v12 - have accessors of their own: each gets about a third)
var c19AccVersions = []string{"10", "12", "3", "4", "11", "12", "6", "9", "org.matrix.hydra.11", "org.matrix.msc4014", "1", "2", "12", "org.matrix.hydra.11", "1", "2"}
var c19AccKinds = []string{"message", "message-long-sticky", "member", "create", "power", "power-full", "joinrules", "histvis", "redaction", "redaction-in-content", "redaction-no-target"}

func c19AccGen(t *rapid.T) c19AccCase {
	c := c19AccCase{
		Version: rapid.SampledFrom(c19AccVersions).Draw(t, "version"),
		Kind:    rapid.SampledFrom(c19AccKinds).Draw(t, "kind"),
		Parse:   rapid.SampledFrom([]string{"untrusted", "untrusted", "trusted", "trusted", "trusted-id", "trusted-roomy"}).Draw(t, "parse"),
		Warm:    rapid.IntRange(0, 3).Draw(t, "warm") == 0,
	}
	k := rapid.IntRange(2, 8).Draw(t, "k")
	// three program shapes: everybody asks for the ID first; nobody touches the ID; free mix
	shape := rapid.SampledFrom([]int{0, 1, 2, 3, 4, 5, 4, 5, 6, 6}).Draw(t, "shape")
	// shapes 4, 5: every goroutine starts with the SAME accessor (any of them may keep a lazily
	// computed value or tidy a slice in place), then goes its own way
	same := rapid.IntRange(0, len(c19Accessors)-1).Draw(t, "sameAcc")
	if shape == 6 {
		// shape 6: ... and that accessor is one that has work to do for this kind of event
		same = c19AccIndex(rapid.SampledFrom(c19KindAccessors(c.Kind)).Draw(t, "kindAcc"))
	}
	for g := 0; g < k; g++ {
		n := rapid.IntRange(1, 3).Draw(t, "n")
		var prog []int
		for i := 0; i < n; i++ {
			idx := rapid.IntRange(0, len(c19Accessors)-1).Draw(t, "acc")
			switch shape {
			case 0:
				if i == 0 {
					idx = rapid.IntRange(0, 2).Draw(t, "idacc")
				}
			case 1:
				for c19TouchesID(c, idx) {
					idx = (idx + 3) % len(c19Accessors)
				}
			case 4, 5, 6:
				if i == 0 {
					idx = same
				}
			}
			prog = append(prog, idx)
		}
		c.Progs = append(c.Progs, prog)
	}
	return c
}

func c19AccIndex(name string) int {
	for i, a := range c19Accessors {
		if a.Name == name {
			return i
		}
	}
	return 0
}

// the accessors that decode something out of this kind of event
func c19KindAccessors(kind string) []string {
	switch kind {
	case "member":
		return []string{"Membership", "StateKey", "StateKeyEquals"}
	case "power", "power-full":
		return []string{"PowerLevels"}
	case "joinrules":
		return []string{"JoinRule"}
	case "histvis":
		return []string{"HistoryVisibility"}
	case "redaction", "redaction-in-content", "redaction-no-target":
		return []string{"Redacts", "Redacts", "Content"}
	case "create":
		return []string{"RoomID", "EventID", "AuthEventIDs"}
	}
	return []string{"IsSticky", "StickyEndTime", "Unsigned", "AuthEventIDs", "RoomID"}
}

var c19AccKey = ed25519.NewKeyFromSeed([]byte("c19-accessor-signing-key-seed-00"))

func c19AccBuildOne(ver IRoomVersion, roomID, typ string, stateKey *string, content string, redacts string, depth int64, prev, auth []string) (PDU, error) {
	pe := &ProtoEvent{
		SenderID: "@u:c19.example", RoomID: roomID, Type: typ, StateKey: stateKey,
		Depth: depth, Content: spec.RawJSON(content), Redacts: redacts,
		Unsigned: spec.RawJSON(`{"age":7}`),
	}
	if ver.EventFormat() == EventFormatV1 {
		pe.PrevEvents, pe.AuthEvents = toEventReference(prev), toEventReference(auth)
	} else {
		pe.PrevEvents, pe.AuthEvents = prev, auth
	}
	return ver.NewEventBuilderFromProtoEvent(pe).Build(time.UnixMilli(1700000000123), "c19.example", "ed25519:c19", c19AccKey)
}

// c19AccBuild returns the wire JSON of the event a case talks about.
func c19AccBuild(c c19AccCase) ([]byte, IRoomVersion, error) {
	ver, err := GetRoomVersion(RoomVersion(c.Version))
	if err != nil {
		return nil, nil, err
	}
	empty, user := "", "@u:c19.example"
	roomID := "!c19room:c19.example"
	createContent := fmt.Sprintf(`{"creator":"@u:c19.example","room_version":%q}`, c.Version)
	createID := "$c19create:c19.example"
	if ver.DomainlessRoomIDs() {
		roomID = ""
		createContent = fmt.Sprintf(`{"room_version":%q}`, c.Version)
	}
	create, err := c19AccBuildOne(ver, roomID, spec.MRoomCreate, &empty, createContent, "", 1, []string{}, []string{})
	if err != nil {
		return nil, nil, fmt.Errorf("create event: %w", err)
	}
	if c.Kind == "create" {
		return create.JSON(), ver, nil
	}
	if ver.EventFormat() != EventFormatV1 {
		createID = create.EventID()
	}
	if ver.DomainlessRoomIDs() {
		roomID = "!" + createID[1:]
	}
	prev := []string{createID}
	auth := []string{createID}
	if ver.DomainlessRoomIDs() {
		auth = []string{"$c19otherauthAAAAAAAAAAAAAAAAAAAAAAAAAAAAAAAAA"}
	}
	var ev PDU
	switch c.Kind {
	case "member":
		ev, err = c19AccBuildOne(ver, roomID, spec.MRoomMember, &user, `{"membership":"join","displayname":"c19"}`, "", 2, prev, auth)
	case "power":
		ev, err = c19AccBuildOne(ver, roomID, spec.MRoomPowerLevels, &empty, `{"users":{"@u:c19.example":100},"users_default":0,"events_default":0,"state_default":50,"ban":50,"kick":50,"redact":50,"invite":0}`, "", 3, prev, auth)
	case "power-full":
		// every section of the content present, including the rarely used ones
		ev, err = c19AccBuildOne(ver, roomID, spec.MRoomPowerLevels, &empty, `{"users":{"@u:c19.example":100,"@v:c19.example":50},"users_default":1,"events":{"m.room.name":60,"m.room.power_levels":100},"events_default":2,"state_default":51,"ban":52,"kick":53,"redact":54,"invite":3,"notifications":{"room":10,"org.example.custom":7}}`, "", 3, prev, auth)
	case "message-long-sticky":
		// asks for more than the hour that stickiness is capped at, under both spellings of the key
		ev, err = c19AccBuildOne(ver, roomID, "m.room.message", nil, `{"body":"hello","msgtype":"m.text"}`, "", 4, prev, auth)
		if err == nil {
			var js []byte
			if js, err = sjson.SetRawBytes(ev.JSON(), "sticky", []byte(`{"duration_ms":7200000}`)); err == nil {
				if js, err = sjson.SetRawBytes(js, "msc4354_sticky", []byte(`{"duration_ms":86400000}`)); err == nil {
					return js, ver, nil
				}
			}
		}
	case "joinrules":
		ev, err = c19AccBuildOne(ver, roomID, spec.MRoomJoinRules, &empty, `{"join_rule":"public"}`, "", 3, prev, auth)
	case "histvis":
		ev, err = c19AccBuildOne(ver, roomID, spec.MRoomHistoryVisibility, &empty, `{"history_visibility":"shared"}`, "", 3, prev, auth)
	case "redaction":
		ev, err = c19AccBuildOne(ver, roomID, spec.MRoomRedaction, nil, `{"reason":"c19","redacts":"$c19target:c19.example"}`, "$c19target:c19.example", 4, prev, auth)
	case "redaction-in-content":
		// the form room version 11 introduced: the target is named in the content only
		ev, err = c19AccBuildOne(ver, roomID, spec.MRoomRedaction, nil, `{"reason":"c19","redacts":"$c19target:c19.example"}`, "", 4, prev, auth)
	case "redaction-no-target":
		ev, err = c19AccBuildOne(ver, roomID, spec.MRoomRedaction, nil, `{"reason":"c19"}`, "", 4, prev, auth)
	default:
		ev, err = c19AccBuildOne(ver, roomID, "m.room.message", nil, `{"body":"hello","msgtype":"m.text","sticky":{"duration_ms":1000}}`, "", 4, prev, auth)
	}
	if err != nil {
		return nil, nil, fmt.Errorf("%s event: %w", c.Kind, err)
	}
	return ev.JSON(), ver, nil
}

func c19AccParse(ver IRoomVersion, how string, evJSON []byte, id string) (PDU, error) {
	cp := append([]byte(nil), evJSON...)
	if how == "trusted-roomy" {
		// parsed out of a larger read buffer: there is room behind the event's JSON that is not the event's
		cp = append(make([]byte, 0, len(evJSON)+256), evJSON...)
	}
	switch how {
	case "untrusted":
		return ver.NewEventFromUntrustedJSON(cp)
	case "trusted-id":
		return ver.NewEventFromTrustedJSONWithEventID(id, cp, false)
	default:
		return ver.NewEventFromTrustedJSON(cp, false)
	}
}

func c19AccRun(out *c19Out, raw []byte) {
	var c c19AccCase
	if err := json.Unmarshal(raw, &c); err != nil {
		out.Fail("C19/harness/bad-case", "%v", err)
		return
	}
	evJSON, ver, err := c19AccBuild(c)
	if err != nil {
		out.Unjudged("accessors/event-not-buildable")
		out.Class("unbuildable/" + c.Version + "/" + c.Kind)
		return
	}
	idSource, err := c19AccParse(ver, "trusted", evJSON, "")
	if err != nil {
		out.Fail("C19/harness/unparseable-own-event", "%v", err)
		return
	}
	id := idSource.EventID()
	parse := func() PDU {
		e, err := c19AccParse(ver, c.Parse, evJSON, id)
		if err != nil {
			panic(fmt.Sprintf("c19: event no longer parses: %v", err))
		}
		return e
	}
	// sequential reference: first-time call on a cold event, and the same call after EventID()
	used := map[int]bool{}
	for _, p := range c.Progs {
		for _, idx := range p {
			used[idx%len(c19Accessors)] = true
		}
	}
	refCold, refWarm := map[int]string{}, map[int]string{}
	for idx := range used {
		e := parse()
		refCold[idx] = c19Accessors[idx].Call(e)
		w := parse()
		w.EventID()
		refWarm[idx] = c19Accessors[idx].Call(w)
	}

	shared := parse()
	if c.Warm {
		shared.EventID()
	}
	lazy := ver.EventFormat() != EventFormatV1 && c.Parse != "trusted-id" && !c.Warm
	touchers := 0
	for _, p := range c.Progs {
		for _, idx := range p {
			if c19TouchesID(c, idx%len(c19Accessors)) {
				touchers++
				break
			}
		}
	}
	out.Class("version/" + c.Version)
	out.Class("kind/" + c.Kind)
	out.Class("parse/" + c.Parse)
	switch {
	case lazy && touchers >= 2:
		out.Class("id/cold/2+goroutines-ask-for-it")
	case lazy && touchers == 1:
		out.Class("id/cold/1-goroutine-asks-for-it")
	case lazy:
		out.Class("id/cold/nobody-asks")
	default:
		out.Class("id/already-set")
	}
	if len(c.Progs) >= 2 {
		out.NonTrivial()
	}

	jsonBefore := string(shared.JSON())
	results := make([][]string, len(c.Progs))
	barrier := make(chan struct{})
	var wg sync.WaitGroup
	for g := range c.Progs {
		wg.Add(1)
		g := g
		c19Go(out, nil, g, func() {
			defer wg.Done()
			<-barrier
			for _, idx := range c.Progs[g] {
				results[g] = append(results[g], c19Accessors[idx%len(c19Accessors)].Call(shared))
				c19Beat()
			}
		})
	}
	c19Beat()
	close(barrier)
	wg.Wait() // a goroutine that never comes back is reported by the child's watchdog
	if out.Failed() {
		return
	}
	if after := string(shared.JSON()); after != jsonBefore {
		out.Fail("C19/accessors/event-json-changed-by-read-only-accessors", "JSON() read %.200q before the accessors ran and %.200q after", jsonBefore, after)
		return
	}
	for g, p := range c.Progs {
		for i, idx := range p {
			idx %= len(c19Accessors)
			if i >= len(results[g]) {
				continue
			}
			got := results[g][i]
			if got != refCold[idx] && got != refWarm[idx] {
				out.Fail("C19/accessors/result-differs-from-sequential/"+c19Accessors[idx].Name,
					"goroutine %d: %s() = %.300q, a single goroutine gets %.300q (cold) / %.300q (after EventID)", g, c19Accessors[idx].Name, got, refCold[idx], refWarm[idx])
			}
		}
	}
	for idx := range used {
		if refCold[idx] != refWarm[idx] {
			out.Class("observation/result-depends-on-earlier-EventID-call/" + c19Accessors[idx].Name)
		}
	}
	// read-only accessors leave nothing behind for OTHER events: after the accessors of a join ran
	// (in several goroutines), a member event whose content names no membership still reports none
	if c.Kind == "member" {
		for _, content := range []string{`{}`, `{"membership":null}`, `{"displayname":"c19"}`} {
			js, jerr := sjson.SetRawBytes(evJSON, "content", []byte(content))
			if jerr != nil {
				continue
			}
			oe, oerr := ver.NewEventFromTrustedJSON(js, false)
			if oerr != nil {
				continue
			}
			m, merr := "", error(nil)
			for try := 0; try < 8 && m == ""; try++ {
				_, _ = shared.Membership() // (the join, on this goroutine, immediately before)
				m, merr = oe.Membership()
			}
			if merr == nil && m != "" {
				out.Fail("C19/accessors/membership-of-another-event", "after Membership() of a join ran, a member event with content %s reports membership %q", content, m)
			}
		}
	}
	// ... a power-levels event that does not mention notifications still reports the default afterwards
	if c.Kind == "power-full" {
		plain := c
		plain.Kind = "power"
		if pj, pver, err := c19AccBuild(plain); err == nil {
			if pe, err := c19AccParse(pver, "trusted", pj, ""); err == nil {
				pl, err := pe.PowerLevels()
				if err != nil || pl == nil || len(pl.Notifications) != 1 || pl.Notifications["room"] != 50 {
					out.Fail("C19/accessors/defaults-of-other-events-changed", "after the accessors of a power-levels event with a notifications section ran, another event without that section reports notifications %v (err %v); the default is {room: 50}", c19Str(pl, err), err)
				}
			}
		}
	}
}

func c19AccCheck(ctx *vfCtx, c c19AccCase) { c19Check(ctx, "accessors", c) }

func init() {
	c19Scenarios["accessors"] = c19AccRun
	vfRapid("C19/accessors",
		"k >= 2 goroutines, released together by a barrier, make first-time accessor calls on one freshly parsed event",
		320, 4000, 8, c19AccGen, c19AccCheck)
}
