//go:build verif

package gomatrixserverlib

import (
	"crypto/ed25519"
	"encoding/base64"
	"fmt"
	"hash/fnv"
	"sort"
	"strings"

	"pgregory.net/rapid"
)

// C07 — event authorisation decides exactly what the Matrix auth rules decide (R-auth oracle).

type c07Case struct {
	Version string    `json:"version"`
	Auth    []vfBytes `json:"auth"`  // auth state events (JSON)
	Event   vfBytes   `json:"event"` // event under check (JSON)
	// Untrusted: every event goes through NewEventFromUntrustedJSON (as events from other servers do)
	// instead of the trusted parser; an event the parser refuses ends the case (nothing to authorise).
	Untrusted bool `json:"untrusted,omitempty"`
	// RedactedState: every auth event has been redacted (the library's Redact() on the parsed event;
	// the reference reads the reference redaction of its JSON). A redacted power-levels / join-rules /
	// member / create event still says what its kept keys say.
	RedactedState bool `json:"redacted_state,omitempty"`
}

func c07Band(version string) string {
	switch version {
	case "1", "2", "3", "4", "5":
		return "v1-5"
	case "6", "7", "8", "9", "org.matrix.msc3667", "org.matrix.msc3787":
		return "v6-9"
	case "10", "11":
		return "v10-11"
	case "12", "org.matrix.hydra.11":
		return "v12"
	}
	return version
}

var c07Trivial = map[string]bool{"A2.no-create-or-other-room": true, "A6.sender-not-joined": true, "A0.auth-events-from-different-rooms": true}

func c07Check(ctx *vfCtx, c c07Case) {
	evTreeV, err := evTree(c.Event)
	if err != nil {
		ctx.Unjudged("generator: malformed event")
		return
	}
	var trees []jv
	for _, a := range c.Auth {
		t, err := evTree(a)
		if err != nil {
			ctx.Unjudged("generator: malformed auth event")
			return
		}
		trees = append(trees, t)
	}
	if c.RedactedState {
		ctx.Class("state-of-redacted-events")
		for i := range trees {
			// (not the create event: before version 11 its redaction loses room_version, and with it the
			// rules the room is judged by - a state no server arrives at by applying a redaction)
			if evStr(trees[i], "type") != "m.room.create" {
				trees[i] = rredact(c.Version, trees[i])
			}
		}
	}
	st := raBuildState(c.Version, trees)
	if why := raUnjudged(st); why != "" {
		ctx.Class("unjudged-state")
		ctx.Unjudged(why)
		// still must not panic
	}
	want, rule := rauth(c.Version, st, evTreeV)
	parse := raParsePDU
	if c.Untrusted {
		parse = func(version string, t jv) (PDU, error) {
			impl, err := GetRoomVersion(RoomVersion(version))
			if err != nil {
				return nil, err
			}
			var p PDU
			if vfCatch(ctx, "C07/untrusted-parse", func() { p, err = impl.NewEventFromUntrustedJSON([]byte(jplain(t))) }) {
				return nil, fmt.Errorf("panic")
			}
			if err == nil && p != nil && p.Redacted() {
				return nil, fmt.Errorf("generator: content hash mismatch")
			}
			return p, err
		}
	}
	var pdus []PDU
	for _, t := range trees {
		p, err := parse(c.Version, t)
		if err != nil {
			if c.Untrusted {
				ctx.Class("refused-at-parse/auth-event")
			}
			ctx.Unjudged("auth event does not parse: " + c07Short(err))
			return
		}
		if c.RedactedState && p.Type() != "m.room.create" {
			if vfCatch(ctx, "C07/redact-state", func() { p.Redact() }) {
				return
			}
		}
		pdus = append(pdus, p)
	}
	ev, err := parse(c.Version, evTreeV)
	if err != nil {
		if c.Untrusted {
			ctx.Class("refused-at-parse/event")
		}
		ctx.Unjudged("event does not parse: " + c07Short(err))
		return
	}
	// a caller that has looked at the state before (a third of the cases): the typed accessors of the
	// auth events were called and what they handed out was edited, as one does to build the next
	// power-levels event - the events themselves are what they were
	if len(c.Event)%3 == 1 {
		ctx.Class("accessor-results-edited-by-the-caller")
		if vfCatch(ctx, "C07/accessors", func() {
			for _, p := range pdus {
				if p.Type() == "m.room.power_levels" {
					if pl, err := p.PowerLevels(); err == nil && pl != nil {
						pl.Ban, pl.Kick, pl.Invite, pl.Redact, pl.StateDefault, pl.EventsDefault, pl.UsersDefault = -77, -77, -77, -77, -77, -77, 1000
						for k := range pl.Users {
							pl.Users[k] = 1000
						}
						if pl.Users != nil {
							pl.Users["@mallory:evil.example"] = 1000
						}
						for k := range pl.Events {
							pl.Events[k] = -77
						}
						for k := range pl.Notifications {
							pl.Notifications[k] = -77
						}
					}
				}
				_, _ = p.Membership()
				_, _ = p.JoinRule()
			}
		}) {
			return
		}
	}
	var aerr error
	if vfCatch(ctx, "C07", func() {
		provider, perr := NewAuthEvents(pdus)
		if perr != nil {
			aerr = perr
			return
		}
		aerr = Allowed(ev, provider, vfUserIDForSender)
	}) {
		return
	}
	if raUnjudged(st) != "" {
		return
	}
	if strings.Contains(rule, "(unjudged)") {
		ctx.Unjudged(rule)
		return
	}
	got := aerr == nil
	ctx.Class("rule/" + rule)
	if !c07Trivial[rule] {
		ctx.NonTrivial()
	}
	// a provider one of whose lookups fails (its database query errors): Allowed returns normally
	// whichever lookup it is, and a failed MEMBER / third-party-invite lookup - which Allowed reports to
	// its caller - never turns a refusal into permission (a quarter of the refused cases, chosen by the
	// event's bytes). A failed create / power-levels / join-rules lookup is read as "no such event" by the
	// checker (by design): only the absence of a panic is demanded there.
	if !want && !got && len(c.Event)%4 == 0 {
		for _, membersOnly := range []bool{false, true} {
			for failAt := 1; failAt <= 5; failAt++ {
				fp := &raFailingProvider{failAt: failAt, membersOnly: membersOnly}
				var ferr error
				if vfCatch(ctx, "C07/failing-provider", func() {
					fp.inner, _ = NewAuthEvents(pdus)
					ferr = Allowed(ev, fp, vfUserIDForSender)
				}) {
					return
				}
				if !fp.failed {
					break
				}
				if !membersOnly {
					ctx.Class("failing-provider-lookup/any(no panic)")
					continue
				}
				ctx.Class("failing-provider-lookup/member")
				if ferr == nil {
					ctx.Fail("C07/allowed-after-a-failed-member-lookup/"+rule+"/"+c07Band(c.Version), "the rules (%s) refuse the event and Allowed refuses it; when member lookup number %d of the provider fails, Allowed ALLOWS it; event=%s", rule, failAt, c.Event)
					return
				}
			}
		}
	}
	if got != want {
		lib := "reject"
		if got {
			lib = "accept"
		}
		stem := rule
		if evStr(evTreeV, "type") == "m.room.aliases" && !vtraits[c.Version].AliasRule {
			// known-finding class: the m.room.aliases special case is applied in v6+ too
			stem = "aliases-special-case-applied-after-v5"
		}
		ctx.Fail("C07/"+stem+"/lib:"+lib+"/"+c07Band(c.Version),
			"Allowed = %v but the rules (%s) say allow=%v; version %s event=%s auth=%v", aerr, rule, want, c.Version, c.Event, c07Strs(c.Auth))
	}
}

func c07Short(err error) string {
	s := err.Error()
	if len(s) > 60 {
		s = s[:60]
	}
	return s
}

// ---- look-alike content keys ------------------------------------------------------------------
// An unknown content key does not take part in any rule - also when it is spelled like a known one
// in another letter case, or with a letter that case-folds to ASCII (U+017F -> s, U+212A -> k).

var c07LookAlikeKeys = map[string][]string{
	"m.room.member":             {"membership", "join_authorised_via_users_server", "third_party_invite"},
	"m.room.power_levels":       {"users", "users_default", "events", "events_default", "state_default", "ban", "kick", "invite", "redact", "notifications"},
	"m.room.join_rules":         {"join_rule", "allow"},
	"m.room.create":             {"creator", "m.federate", "room_version", "additional_creators"},
	"m.room.third_party_invite": {"public_key", "public_keys"},
}

func c07LookAlike(t *rapid.T, name string) string {
	var opts []string
	opts = append(opts, strings.ToUpper(name[:1])+name[1:], strings.ToUpper(name))
	if i := strings.IndexByte(name, 's'); i >= 0 {
		opts = append(opts, name[:i]+"\u017f"+name[i+1:])
	}
	if i := strings.IndexByte(name, 'k'); i >= 0 {
		opts = append(opts, name[:i]+"\u212a"+name[i+1:])
	}
	if i := strings.LastIndexByte(name, '_'); i >= 0 && i+1 < len(name) {
		opts = append(opts, name[:i+1]+strings.ToUpper(name[i+1:i+2])+name[i+2:])
	}
	return rapid.SampledFrom(opts).Draw(t, "lookAlike")
}

func c07LookAlikeValue(t *rapid.T, name string) jv {
	switch name {
	case "membership":
		return jstr(rapid.SampledFrom([]string{"join", "ban", "leave", "invite", "knock"}).Draw(t, "lvMem"))
	case "join_authorised_via_users_server", "creator":
		return jstr(rapid.SampledFrom(c07Users).Draw(t, "lvUser"))
	case "users":
		return jobj(rapid.SampledFrom(c07Users).Draw(t, "lvWho"), jnum(int64(rapid.SampledFrom([]int{0, 50, 100, 1000}).Draw(t, "lvLvl"))))
	case "events", "notifications":
		return jobj(rapid.SampledFrom([]string{"m.room.power_levels", "m.room.topic", "m.room.message", "room"}).Draw(t, "lvEv"), jnum(int64(rapid.SampledFrom([]int{0, 100}).Draw(t, "lvLvl2"))))
	case "join_rule":
		return jstr(rapid.SampledFrom(c07JoinRules).Draw(t, "lvJR"))
	case "allow":
		return jarr(jobj("type", jstr("m.room_membership"), "room_id", jstr("!other:a.example")))
	case "m.federate":
		return jv{K: rapid.SampledFrom([]byte{'t', 'f'}).Draw(t, "lvFed")}
	case "room_version":
		return jstr(rapid.SampledFrom([]string{"bogus.version", "1", "10"}).Draw(t, "lvRV"))
	case "additional_creators":
		return jarr(jstr(rapid.SampledFrom(c07Users).Draw(t, "lvAC")))
	case "third_party_invite":
		return jobj("signed", jobj("mxid", jstr(c07Carol), "token", jstr("tok")))
	case "public_key":
		return jstr(c07PubB64("idkey3"))
	case "public_keys":
		return jarr(jobj("public_key", jstr(c07PubB64("idkey3"))))
	}
	return jnum(int64(rapid.SampledFrom([]int{0, 50, 100, -1, 1000}).Draw(t, "lvNum")))
}

func c07GenLookAlike(t *rapid.T) c07Case {
	c := c07GenRandomRoom(t)
	c.Untrusted = true
	// victims: the event itself and the auth events of the types whose content the rules read
	type slot struct{ auth int }
	var slots []slot
	if et, err := evTree(c.Event); err == nil && c07LookAlikeKeys[evStr(et, "type")] != nil {
		slots = append(slots, slot{-1}, slot{-1})
	}
	for i, a := range c.Auth {
		if at, err := evTree(a); err == nil && c07LookAlikeKeys[evStr(at, "type")] != nil {
			slots = append(slots, slot{i})
		}
	}
	if len(slots) == 0 {
		return c
	}
	n := rapid.IntRange(1, 2).Draw(t, "nLookAlikes")
	for k := 0; k < n; k++ {
		sl := rapid.SampledFrom(slots).Draw(t, "victim")
		raw := c.Event
		if sl.auth >= 0 {
			raw = c.Auth[sl.auth]
		}
		tree, err := evTree(raw)
		if err != nil {
			continue
		}
		name := rapid.SampledFrom(c07LookAlikeKeys[evStr(tree, "type")]).Draw(t, "lookAlikeOf")
		ct, _ := tree.get("content")
		if ct.K != 'o' {
			continue
		}
		ct = ct.with(c07LookAlike(t, name), c07LookAlikeValue(t, name))
		tree = tree.with("content", ct).without("hashes")
		tree = tree.with("hashes", jobj("sha256", jstr(rcontentHash(tree))))
		if sl.auth >= 0 {
			c.Auth[sl.auth] = vfBytes(jplain(tree))
		} else {
			c.Event = vfBytes(jplain(tree))
		}
	}
	return c
}

func c07Strs(b []vfBytes) []string {
	out := make([]string, len(b))
	for i := range b {
		out[i] = string(b[i])
	}
	return out
}

// ---------------------------------------------------------------------------------------------
// Room builder shared by the generators

const (
	c07Creator = "@creator:a.example"
	c07Alice   = "@alice:a.example"
	c07Bob     = "@bob:b.example"
	c07Carol   = "@carol:c.example"
)

var c07Users = []string{c07Creator, c07Alice, c07Bob, c07Carol}

type c07Room struct {
	Version           string
	Federate          string   // "", "true", "false"
	AddCreator        []string // v12 additional_creators
	HasPL             bool
	PL                jv                // content
	JoinRule          string            // "-" = no join rules event
	Members           map[string]string // user -> membership ("-" absent)
	Via               string
	TPI               *jv // content of the third_party_invite event (state key "tok")
	TPISender         string
	CreateRoomVersion string // "=" same as version, "-" absent, else literal
	// OddProfiles: every member event of the state carries profile keys of the wrong JSON type next
	// to its membership (displayname false, avatar_url a list, is_direct a string, reason a number);
	// the rules read the membership and nothing else
	OddProfiles bool
}

func c07RoomID(version string) string { return "!room:a.example" }

type c07Built struct {
	Auth     []jv
	CreateID string
	RoomID   string
}

func c07Build(r c07Room) c07Built {
	tr := vtraits[r.Version]
	var out c07Built
	cc := jv{K: 'o'}
	if tr.CreatorField || r.Version == "11" {
		if tr.CreatorField {
			cc = cc.with("creator", jstr(c07Creator))
		}
	}
	switch r.CreateRoomVersion {
	case "", "=":
		cc = cc.with("room_version", jstr(r.Version))
	case "-":
	default:
		cc = cc.with("room_version", jstr(r.CreateRoomVersion))
	}
	switch r.Federate {
	case "true":
		cc = cc.with("m.federate", jv{K: 't'})
	case "false":
		cc = cc.with("m.federate", jv{K: 'f'})
	}
	if len(r.AddCreator) > 0 {
		ac := jv{K: 'a', A: []jv{}}
		for _, u := range r.AddCreator {
			ac.A = append(ac.A, jstr(u))
		}
		cc = cc.with("additional_creators", ac)
	}
	room := c07RoomID(r.Version)
	ce := raEv{Type: "m.room.create", Sender: c07Creator, Room: room, StateKey: raSK(""), Content: cc, Depth: 1, TS: 1000, ID: "$create:a.example"}
	if tr.Creators {
		ce.Room = ""
	}
	create := raJSON(r.Version, ce)
	out.CreateID = raEventID(r.Version, create)
	if tr.Creators {
		room = "!" + out.CreateID[1:]
	}
	out.RoomID = room
	out.Auth = append(out.Auth, create)
	depth := int64(2)
	add := func(e raEv) {
		e.Room = room
		e.Depth = depth
		e.TS = 1000 + depth
		e.Prev = []string{out.CreateID}
		depth++
		out.Auth = append(out.Auth, raJSON(r.Version, e))
	}
	if r.HasPL {
		add(raEv{Type: "m.room.power_levels", Sender: c07Creator, StateKey: raSK(""), Content: r.PL})
	}
	if r.JoinRule != "-" {
		add(raEv{Type: "m.room.join_rules", Sender: c07Creator, StateKey: raSK(""), Content: jobj("join_rule", jstr(r.JoinRule))})
	}
	members := append([]string{}, c07Users...)
	var others []string
	for u := range r.Members {
		known := false
		for _, k := range c07Users {
			known = known || k == u
		}
		if !known {
			others = append(others, u)
		}
	}
	sort.Strings(others) // users outside the fixed cast (enumerators may bring their own), in a stable order
	for _, u := range append(members, others...) {
		m, ok := r.Members[u]
		if !ok || m == "-" {
			continue
		}
		mc := jobj("membership", jstr(m))
		if r.OddProfiles {
			mc = jobj("displayname", jv{K: 'f'}, "avatar_url", jarr(jnum(1)), "membership", jstr(m), "is_direct", jstr("yes"), "reason", jnum(7))
		}
		add(raEv{Type: "m.room.member", Sender: u, StateKey: raSK(u), Content: mc})
	}
	if r.TPI != nil {
		add(raEv{Type: "m.room.third_party_invite", Sender: r.TPISender, StateKey: raSK("tok"), Content: *r.TPI})
	}
	return out
}

func c07Finish(version string, b c07Built, e raEv) c07Case {
	if !(vtraits[version].Creators && e.Type == "m.room.create") && e.Room == "" {
		e.Room = b.RoomID
	}
	if e.Depth == 0 {
		e.Depth = 50
	}
	e.TS = 5000
	if e.ID == "" {
		e.ID = "$event:" + strings.SplitN(e.Sender+":x", ":", 3)[1]
	}
	c := c07Case{Version: version, Event: vfBytes(jplain(raJSON(version, e)))}
	for _, a := range b.Auth {
		c.Auth = append(c.Auth, vfBytes(jplain(a)))
	}
	return c
}

func c07PLContent(users map[string]int64, named map[string]int64, events map[string]int64, notif map[string]int64) jv {
	c := jv{K: 'o'}
	for _, k := range raNamed {
		if v, ok := named[k]; ok {
			c = c.with(k, jnum(v))
		}
	}
	mk := func(m map[string]int64, order []string) jv {
		o := jv{K: 'o'}
		for _, k := range order {
			if v, ok := m[k]; ok {
				o = o.with(k, jnum(v))
			}
		}
		return o
	}
	if users != nil {
		c = c.with("users", mk(users, c07Users))
	}
	if events != nil {
		c = c.with("events", mk(events, c07EventTypes))
	}
	if notif != nil {
		c = c.with("notifications", mk(notif, []string{"room", "other"}))
	}
	return c
}

var c07EventTypes = []string{"m.room.message", "m.room.topic", "m.room.power_levels", "m.room.join_rules", "m.room.redaction", "org.example.custom", "m.room.name"}

// ---------------------------------------------------------------------------------------------
// Random generator

var c07Levels = []int64{0, 0, 49, 50, 50, 51, 100}

func c07GenRoom(t *rapid.T, version string) c07Room {
	tr := vtraits[version]
	r := c07Room{Version: version, Members: map[string]string{}, JoinRule: "-"}
	r.OddProfiles = rapid.IntRange(0, 7).Draw(t, "oddProfiles") == 0
	r.Federate = rapid.SampledFrom([]string{"", "", "true", "false"}).Draw(t, "federate")
	// (before version 12 an additional_creators list in the create content is just unknown content)
	if (tr.Creators && rapid.Bool().Draw(t, "addCreator")) || (!tr.Creators && rapid.IntRange(0, 3).Draw(t, "addCreatorIgnored") == 0) {
		r.AddCreator = []string{rapid.SampledFrom([]string{c07Alice, c07Bob}).Draw(t, "addCreatorWho")}
	}
	if rapid.IntRange(0, 4).Draw(t, "hasPL") > 0 {
		r.HasPL = true
		users := map[string]int64{}
		for _, u := range c07Users {
			if tr.Creators && (u == c07Creator || (len(r.AddCreator) > 0 && u == r.AddCreator[0])) {
				continue
			}
			if rapid.Bool().Draw(t, "plUser") {
				users[u] = rapid.SampledFrom(c07Levels).Draw(t, "plUserLevel")
			}
		}
		named := map[string]int64{}
		for _, k := range raNamed {
			if rapid.IntRange(0, 2).Draw(t, "plNamed") == 0 {
				named[k] = rapid.SampledFrom(c07Levels).Draw(t, "plNamedLevel")
			}
		}
		var events map[string]int64
		if rapid.Bool().Draw(t, "plEvents") {
			events = map[string]int64{}
			for _, k := range c07EventTypes {
				if rapid.IntRange(0, 3).Draw(t, "plEvent") == 0 {
					events[k] = rapid.SampledFrom(c07Levels).Draw(t, "plEventLevel")
				}
			}
		}
		r.PL = c07PLContent(users, named, events, nil)
	}
	r.JoinRule = rapid.SampledFrom([]string{"-", "public", "invite", "knock", "restricted", "knock_restricted", "private"}).Draw(t, "joinRule")
	for _, u := range c07Users {
		choices := []string{"-", "join", "join", "leave", "invite", "ban", "knock"}
		if u == c07Creator {
			choices = []string{"join", "join", "join", "-", "leave"}
		}
		r.Members[u] = rapid.SampledFrom(choices).Draw(t, "member")
	}
	return r
}

// c07TPIKey returns the identity-server key pair and a signed block for mxid/token.
func c07Signed(mxid, token, keyLabel string, extra bool) jv {
	_, priv := vfKeyFor(keyLabel)
	signed := jobj("mxid", jstr(mxid), "token", jstr(token))
	sig := base64.RawStdEncoding.EncodeToString(ed25519.Sign(priv, []byte(jcanon(signed))))
	if extra {
		// besides the valid ed25519 signature: signatures under key IDs of other algorithms by the same
		// identity server, and an entry of another server - none of them can count, none of them hurts
		return signed.with("signatures", jobj(
			"id.example", jobj("curve25519:1", jstr("AAAA"), "ed25519:0", jstr(sig), "ed448:0", jstr("BBBB"), "rsa:9", jstr("CCCC"), "zz:1", jstr("DDDD")),
			"other.example", jobj("ed448:0", jstr("EEEE"))))
	}
	return signed.with("signatures", jobj("id.example", jobj("ed25519:0", jstr(sig))))
}

func c07PubB64(keyLabel string) string {
	pub, _ := vfKeyFor(keyLabel)
	return base64.RawStdEncoding.EncodeToString(pub)
}

// user IDs that are valid only under the historical grammar (upper case, '+', other printable ASCII)
var c07HistoricalUsers = []string{"@Alice:a.example", "@alice+work:a.example", "@Carol.Smith:c.example", "@a!b#c:b.example"}

// c07InjectForeign adds an auth event of ANOTHER room to the auth list: as a second event for a tuple
// that is already there (after or before the room's own one), or under a tuple of its own. The
// rules refuse auth events from different rooms whatever else they say.
func c07InjectForeign(t *rapid.T, version string, c *c07Case) {
	if len(c.Auth) < 2 {
		return
	}
	i := rapid.IntRange(1, len(c.Auth)-1).Draw(t, "foreignOf")
	tree, err := evTree(c.Auth[i])
	if err != nil {
		return
	}
	room := "!elsewhere:a.example"
	if vtraits[version].Creators {
		room = "!" + strings.Repeat("C", 43)
	}
	tree = tree.with("room_id", jstr(room))
	if vtraits[version].Format == 1 {
		tree = tree.with("event_id", jstr("$foreign:a.example"))
	}
	mode := rapid.SampledFrom([]string{"same-tuple-after", "same-tuple-after", "same-tuple-before", "own-tuple"}).Draw(t, "foreignMode")
	if mode == "own-tuple" {
		tree = tree.with("type", jstr("org.example.foreign")).with("state_key", jstr("f"))
	}
	tree = tree.without("hashes")
	tree = tree.with("hashes", jobj("sha256", jstr(rcontentHash(tree))))
	raw := vfBytes(jplain(tree))
	switch mode {
	case "same-tuple-before":
		c.Auth = append(c.Auth[:i:i], append([]vfBytes{raw}, c.Auth[i:]...)...)
	default:
		c.Auth = append(c.Auth, raw)
	}
}

func c07GenRandom(t *rapid.T) c07Case {
	c := c07GenRandomRoom(t)
	if rapid.IntRange(0, 11).Draw(t, "foreignAuth") == 0 {
		c07InjectForeign(t, c.Version, &c)
	}
	c.RedactedState = rapid.IntRange(0, 9).Draw(t, "redactedState") == 0
	return c
}

func c07GenRandomRoom(t *rapid.T) c07Case {
	version := evGenVersion(t)
	tr := vtraits[version]
	r := c07GenRoom(t, version)
	sender := rapid.SampledFrom(c07Users).Draw(t, "sender")
	typ := rapid.SampledFrom([]string{"m.room.member", "m.room.member", "m.room.member", "m.room.message", "m.room.topic",
		"org.example.custom", "m.room.third_party_invite", "m.room.redaction", "m.room.aliases", "m.room.join_rules", "m.room.power_levels", "m.room.create"}).Draw(t, "type")
	e := raEv{Type: typ, Sender: sender, Content: jv{K: 'o'}}
	prevKind := rapid.IntRange(0, 3).Draw(t, "prevKind")
	switch typ {
	case "m.room.member":
		target := rapid.SampledFrom(c07Users).Draw(t, "target")
		if rapid.IntRange(0, 2).Draw(t, "self") == 0 {
			target = sender
		}
		e.StateKey = &target
		mem := rapid.SampledFrom([]string{"join", "join", "leave", "invite", "ban", "knock", "bogus", ""}).Draw(t, "membership")
		if mem != "" {
			e.Content = jobj("membership", jstr(mem))
		}
		if mem == "join" && rapid.IntRange(0, 2).Draw(t, "via") > 0 {
			via := rapid.SampledFrom([]string{c07Creator, c07Alice, c07Bob, "notauser", "@nobody:x.example"}).Draw(t, "viaWho")
			e.Content = e.Content.with("join_authorised_via_users_server", jstr(via))
		}
		if mem == "invite" && rapid.IntRange(0, 2).Draw(t, "tpi") == 0 {
			// third-party invite
			keyLabel := rapid.SampledFrom([]string{"idkey1", "idkey2"}).Draw(t, "idKey")
			mxid := target
			if rapid.IntRange(0, 5).Draw(t, "mxidMismatch") == 0 {
				mxid = c07Carol
			}
			signed := c07Signed(mxid, "tok", rapid.SampledFrom([]string{keyLabel, keyLabel, "idkey3"}).Draw(t, "signKey"), rapid.Bool().Draw(t, "otherAlgSigs"))
			e.Content = e.Content.with("third_party_invite", jobj("display_name", jstr("x"), "signed", signed))
			if rapid.IntRange(0, 4).Draw(t, "hasTPIEvent") > 0 {
				var tc jv
				switch rapid.IntRange(0, 2).Draw(t, "tpiShape") {
				case 0:
					tc = jobj("display_name", jstr("x"), "key_validity_url", jstr("https://id.example/v"), "public_key", jstr(c07PubB64(keyLabel)),
						"public_keys", jarr(jobj("public_key", jstr(c07PubB64(keyLabel)), "key_validity_url", jstr("https://id.example/v"))))
				case 1:
					tc = jobj("display_name", jstr("x"), "key_validity_url", jstr("https://id.example/v"), "public_key", jstr(c07PubB64(keyLabel)))
				default:
					tc = jobj("display_name", jstr("x"), "public_keys", jarr(jobj("public_key", jstr(c07PubB64("idkey9"))), jobj("public_key", jstr(c07PubB64(keyLabel)))))
				}
				r.TPI = &tc
				r.TPISender = rapid.SampledFrom([]string{sender, sender, sender, c07Creator, c07Alice}).Draw(t, "tpiSender")
			}
		}
	case "m.room.topic", "m.room.join_rules":
		e.StateKey = raSK("")
		if typ == "m.room.join_rules" {
			e.Content = jobj("join_rule", jstr("public"))
		}
	case "m.room.power_levels":
		e.StateKey = raSK("")
		e.Content = c08GenNewPL(t, version, r, sender)
	case "org.example.custom":
		switch rapid.IntRange(0, 3).Draw(t, "skKind") {
		case 0:
		case 1:
			e.StateKey = raSK("")
		case 2:
			e.StateKey = raSK(sender)
		default:
			// another user's ID, or a key that merely starts with '@' (the rule is about the first character)
			e.StateKey = raSK(rapid.SampledFrom(append([]string{"@", "@u1", "@bridge_puppet_7", "@alice", "@:a.example", "@alice:"}, c07Users...)).Draw(t, "skUser"))
		}
	case "m.room.third_party_invite":
		e.StateKey = raSK("tok2")
		e.Content = jobj("display_name", jstr("y"))
	case "m.room.redaction":
		e.Redacts = rapid.SampledFrom([]string{"$old:a.example", "$old:b.example", "$old:c.example", "nocolon"}).Draw(t, "redacts")
	case "m.room.aliases":
		dom := strings.SplitN(sender, ":", 2)[1]
		switch rapid.IntRange(0, 3).Draw(t, "aliasSK") {
		case 0:
		case 1:
			e.StateKey = raSK("other.example")
		default:
			e.StateKey = raSK(dom)
		}
	case "m.room.create":
		e.StateKey = raSK("")
		cc := jv{K: 'o'}
		if rapid.IntRange(0, 3).Draw(t, "hasCreator") > 0 {
			cc = cc.with("creator", jstr(sender))
		}
		switch rapid.IntRange(0, 3).Draw(t, "rv") {
		case 0:
		case 1:
			cc = cc.with("room_version", jstr("bogus.version"))
		default:
			cc = cc.with("room_version", jstr(version))
		}
		if tr.Creators {
			switch rapid.IntRange(0, 4).Draw(t, "ac") {
			case 0:
				cc = cc.with("additional_creators", jarr(jstr(c07Alice)))
			case 1:
				cc = cc.with("additional_creators", jarr(jstr("notauser")))
			case 2:
				// user IDs of the historical grammar are valid user IDs
				cc = cc.with("additional_creators", jarr(jstr(c07Alice), jstr(rapid.SampledFrom(c07HistoricalUsers).Draw(t, "acHist"))))
			}
		}
		e.Content = cc
		prevKind = rapid.SampledFrom([]int{2, 2, 2, 0}).Draw(t, "createPrev")
		if tr.Creators {
			if rapid.IntRange(0, 3).Draw(t, "v12room") == 0 {
				e.Room = "!" + strings.Repeat("B", 43)
			}
		} else {
			e.Room = rapid.SampledFrom([]string{"!new:a.example", "!new:b.example", "!new:c.example"}).Draw(t, "createRoom")
		}
	}
	b := c07Build(r)
	switch prevKind {
	case 0:
		e.Prev = []string{b.CreateID}
	case 1:
		e.Prev = []string{b.CreateID, evFakeID(t, version, "prev2")}
	case 2:
		e.Prev = nil
	default:
		e.Prev = []string{evFakeID(t, version, "prev")}
	}
	if typ != "m.room.create" && rapid.IntRange(0, 15).Draw(t, "otherRoom") == 0 {
		if tr.Creators {
			e.Room = "!" + strings.Repeat("C", 43)
		} else {
			e.Room = "!elsewhere:a.example"
		}
	}
	return c07Finish(version, b, e)
}

// ---------------------------------------------------------------------------------------------
// Enumerators (bounded-exhaustive products; `size` = sampling stride: 1 = complete)

func c07Pick(idx, stride int) bool {
	if stride <= 1 {
		return true
	}
	h := fnv.New32a()
	fmt.Fprint(h, idx)
	return int(h.Sum32()%uint32(stride)) == 0
}

var c07PrevMems = []string{"-", "join", "leave", "invite", "ban", "knock"}
var c07NewMems = []string{"join", "leave", "invite", "ban", "knock", "bogus", ""}
var c07JoinRules = []string{"-", "public", "invite", "knock", "restricted", "knock_restricted", "private"}

func c07EnumMember(size, shard, nshards int, emit func(c07Case)) {
	idx := 0
	for _, version := range vfVersions {
		for _, newMem := range c07NewMems {
			for _, self := range []bool{true, false} {
				for _, sPrev := range c07PrevMems {
					tPrevs := c07PrevMems
					if self {
						tPrevs = []string{sPrev}
					}
					for _, tPrev := range tPrevs {
						for _, jr := range c07JoinRules {
							for _, sLvl := range []int64{49, 50, 51} {
								tLvls := []int64{sLvl - 1, sLvl, sLvl + 1}
								if self {
									tLvls = []int64{sLvl}
								}
								for _, tLvl := range tLvls {
									vias := []string{""}
									if self && newMem == "join" && (jr == "restricted" || jr == "knock_restricted") {
										vias = []string{"", "joined-power", "joined-nopower", "notjoined", "invalid", "creator", "additional-creator"}
									}
									for _, via := range vias {
										idx++
										if idx%nshards != shard || !c07Pick(idx, size) {
											continue
										}
										// every seventh room has member events with mistyped profile keys
										c07OddProfilesNext = idx%7 == 3
										cs := c07MemberCase(version, newMem, self, sPrev, tPrev, jr, sLvl, tLvl, via)
										// the three thresholds are told apart in two thirds of the cases (rotating):
										// the rule in force must be decided by ITS threshold, the others lie 10 away
										if p := idx / 5 % 3; p > 0 {
											cs = c07MemberCaseWith(version, newMem, self, sPrev, tPrev, jr, sLvl, tLvl, via,
												[]map[string]int64{nil, {"ban": 50, "kick": 40, "invite": 60}, {"ban": 40, "kick": 60, "invite": 50}}[p])
										}
										c07OddProfilesNext = false
										emit(cs)
									}
								}
							}
						}
					}
				}
			}
		}
	}
}

// c07OddProfilesNext is read by c07MemberCaseWith (the enumerators run sequentially).
var c07OddProfilesNext bool

func c07MemberCase(version, newMem string, self bool, sPrev, tPrev, jr string, sLvl, tLvl int64, via string) c07Case {
	return c07MemberCaseWith(version, newMem, self, sPrev, tPrev, jr, sLvl, tLvl, via, map[string]int64{"ban": 50, "kick": 50, "invite": 50})
}

func c07MemberCaseWith(version, newMem string, self bool, sPrev, tPrev, jr string, sLvl, tLvl int64, via string, thresholds map[string]int64) c07Case {
	sender, target := c07Alice, c07Bob
	if self {
		target = sender
	}
	users := map[string]int64{c07Alice: sLvl, c07Creator: 100}
	if !self {
		users[c07Bob] = tLvl
	}
	if vtraits[version].Creators {
		delete(users, c07Creator)
	}
	r := c07Room{Version: version, HasPL: true, JoinRule: jr, Members: map[string]string{c07Creator: "join", c07Alice: sPrev}, OddProfiles: c07OddProfilesNext}
	if !self {
		r.Members[c07Bob] = tPrev
	}
	content := jv{K: 'o'}
	if newMem != "" {
		content = jobj("membership", jstr(newMem))
	}
	switch via {
	case "joined-power":
		r.Members[c07Carol] = "join"
		users[c07Carol] = 50
		content = content.with("join_authorised_via_users_server", jstr(c07Carol))
	case "joined-nopower":
		r.Members[c07Carol] = "join"
		users[c07Carol] = 49
		content = content.with("join_authorised_via_users_server", jstr(c07Carol))
	case "notjoined":
		r.Members[c07Carol] = "leave"
		users[c07Carol] = 100
		content = content.with("join_authorised_via_users_server", jstr(c07Carol))
	case "invalid":
		content = content.with("join_authorised_via_users_server", jstr("notauser"))
	case "creator":
		// the creator is joined; in v12 it is not in the users map (infinite level), elsewhere it has 100
		content = content.with("join_authorised_via_users_server", jstr(c07Creator))
	case "additional-creator":
		// carol is joined with users-map level 49 (< invite 50) unless she is an additional creator (v12)
		r.Members[c07Carol] = "join"
		if vtraits[version].Creators {
			r.AddCreator = []string{c07Carol}
		} else {
			users[c07Carol] = 49
		}
		content = content.with("join_authorised_via_users_server", jstr(c07Carol))
	}
	r.PL = c07PLContent(users, thresholds, nil, nil)
	b := c07Build(r)
	e := raEv{Type: "m.room.member", Sender: sender, StateKey: &target, Content: content, Prev: []string{"$someprev:a.example"}}
	if vtraits[version].Format == 2 {
		e.Prev = []string{"$" + strings.Repeat("P", 43)}
	}
	return c07Finish(version, b, e)
}

func c07EnumGeneric(size, shard, nshards int, emit func(c07Case)) {
	idx := 0
	types := []string{"message", "topic", "custom-at-self", "custom-at-other", "custom-at-not-a-user-id", "custom-at-only", "third_party_invite", "third_party_invite-events-entry-high", "third_party_invite-events-entry-low", "topic-events-entry-high", "message-events-entry-low", "redaction-same", "redaction-other", "aliases-own", "aliases-other", "join_rules", "first-join", "first-join-2prev"}
	for _, version := range vfVersions {
		for _, kind := range types {
			for _, sMem := range c07PrevMems {
				for _, lvl := range []int64{49, 50, 51} {
					for _, fed := range []string{"", "true", "false"} {
						for _, sender := range []string{c07Alice, c07Bob, c07Creator, "@dan:d.example:8448", "@eve:[2001:db8::1]:8448", "@mal:a.example:8448"} {
							for _, hasPL := range []bool{true, false} {
								idx++
								if idx%nshards != shard || !c07Pick(idx, size) {
									continue
								}
								emit(c07GenericCase(version, kind, sMem, lvl, fed, sender, hasPL, 50))
							}
						}
					}
				}
			}
		}
		// the same product around thresholds of 0 and -10 (senders with negative levels; a required
		// level of zero or less is still a requirement)
		for _, kind := range types {
			for _, sMem := range c07PrevMems {
				for _, base := range []int64{0, -10} {
					for _, off := range []int64{-1, 0, 1} {
						for _, sender := range []string{c07Alice, c07Creator} {
							idx++
							if idx%nshards != shard || !c07Pick(idx, size) {
								continue
							}
							emit(c07GenericCase(version, kind, sMem, base+off, "", sender, true, base))
						}
					}
				}
			}
		}
		// create events
		for _, prev := range []bool{false, true} {
			for _, dom := range []string{"a.example", "b.example"} {
				for _, creator := range []bool{true, false} {
					for _, rv := range []string{"-", "=", "bogus"} {
						for _, room := range []bool{false, true} {
							for _, ac := range []string{"-", "valid", "valid-historical", "invalid"} {
								for _, sk := range []string{"", "x"} {
									idx++
									if idx%nshards != shard || !c07Pick(idx, size) {
										continue
									}
									emit(c07CreateCase(version, prev, dom, creator, rv, room, ac, sk))
								}
							}
						}
					}
				}
			}
		}
	}
}

func c07GenericCase(version, kind, sMem string, lvl int64, fed, sender string, hasPL bool, base int64) c07Case {
	users := map[string]int64{sender: lvl}
	if vtraits[version].Creators {
		delete(users, c07Creator)
	}
	r := c07Room{Version: version, HasPL: hasPL, JoinRule: "public", Federate: fed, Members: map[string]string{c07Creator: "join"}}
	r.Members[sender] = sMem
	// every relevant threshold is base (50 in the main product) so that lvl is <, =, > the requirement
	var events map[string]int64
	switch kind {
	case "third_party_invite-events-entry-high":
		events = map[string]int64{"m.room.third_party_invite": base + 50} // the invite level (base) decides, not this entry
	case "third_party_invite-events-entry-low":
		events = map[string]int64{"m.room.third_party_invite": base - 50}
	case "topic-events-entry-high":
		events = map[string]int64{"m.room.topic": base + 1} // explicit entries DO decide for ordinary types
	case "message-events-entry-low":
		events = map[string]int64{"m.room.message": base - 1}
	}
	named := map[string]int64{"events_default": base, "state_default": base, "invite": base, "redact": base}
	if strings.HasPrefix(kind, "redaction") {
		// sending a redaction needs one level less than the redact level, so that at lvl = base-1 the
		// event may be sent and only the redaction rule itself (same server / redact level) decides
		named["events_default"] = base - 1
	}
	r.PL = c07PLContent(users, named, events, nil)
	if events != nil {
		pl := r.PL
		em := jv{K: 'o'}
		for k, v := range events {
			em = em.with(k, jnum(v))
		}
		r.PL = pl.with("events", em)
	}
	e := raEv{Sender: sender, Content: jv{K: 'o'}, Prev: []string{"$p:a.example"}}
	if vtraits[version].Format == 2 {
		e.Prev = []string{"$" + strings.Repeat("P", 43)}
	}
	dom := strings.SplitN(sender, ":", 2)[1]
	b := c07Build(r)
	switch kind {
	case "message":
		e.Type = "m.room.message"
	case "topic":
		e.Type, e.StateKey = "m.room.topic", raSK("")
	case "custom-at-self":
		e.Type, e.StateKey = "org.example.custom", raSK(sender)
	case "custom-at-not-a-user-id":
		e.Type, e.StateKey = "org.example.custom", raSK("@bridge_puppet_7")
	case "custom-at-only":
		e.Type, e.StateKey = "org.example.custom", raSK("@")
	case "custom-at-other":
		e.Type, e.StateKey = "org.example.custom", raSK(c07Carol)
	case "third_party_invite", "third_party_invite-events-entry-high", "third_party_invite-events-entry-low":
		e.Type, e.StateKey = "m.room.third_party_invite", raSK("tok")
	case "topic-events-entry-high":
		e.Type, e.StateKey = "m.room.topic", raSK("")
	case "message-events-entry-low":
		e.Type = "m.room.message"
	case "redaction-same":
		e.Type, e.Redacts = "m.room.redaction", "$x:"+dom
	case "redaction-other":
		e.Type, e.Redacts = "m.room.redaction", "$x:zzz.example"
	case "aliases-own":
		e.Type, e.StateKey = "m.room.aliases", raSK(dom)
	case "aliases-other":
		e.Type, e.StateKey = "m.room.aliases", raSK("zzz.example")
	case "join_rules":
		e.Type, e.StateKey, e.Content = "m.room.join_rules", raSK(""), jobj("join_rule", jstr("invite"))
	case "first-join":
		e.Type, e.StateKey, e.Content = "m.room.member", raSK(sender), jobj("membership", jstr("join"))
		e.Prev = []string{b.CreateID}
	case "first-join-2prev":
		e.Type, e.StateKey, e.Content = "m.room.member", raSK(sender), jobj("membership", jstr("join"))
		e.Prev = append([]string{b.CreateID}, e.Prev...)
	}
	return c07Finish(version, b, e)
}

func c07CreateCase(version string, prev bool, dom string, creator bool, rv string, room bool, ac, sk string) c07Case {
	sender := "@creator:" + dom
	cc := jv{K: 'o'}
	if creator {
		cc = cc.with("creator", jstr(sender))
	}
	switch rv {
	case "=":
		cc = cc.with("room_version", jstr(version))
	case "bogus":
		cc = cc.with("room_version", jstr("bogus.version"))
	}
	switch ac {
	case "valid":
		cc = cc.with("additional_creators", jarr(jstr(c07Alice)))
	case "valid-historical":
		cc = cc.with("additional_creators", jarr(jstr(c07HistoricalUsers[0]), jstr(c07HistoricalUsers[1]), jstr(c07HistoricalUsers[2])))
	case "invalid":
		cc = cc.with("additional_creators", jarr(jstr("notauser")))
	}
	e := raEv{Type: "m.room.create", Sender: sender, StateKey: raSK(sk), Content: cc, Room: "!new:a.example", Depth: 1, ID: "$newcreate:" + dom}
	if vtraits[version].Creators {
		e.Room = ""
		if room {
			e.Room = "!" + strings.Repeat("B", 43)
		}
	} else if room {
		e.Room = "!new:b.example"
	}
	if prev {
		e.Prev = []string{"$p:a.example"}
		if vtraits[version].Format == 2 {
			e.Prev = []string{"$" + strings.Repeat("P", 43)}
		}
	}
	c := c07Case{Version: version, Event: vfBytes(jplain(raJSON(version, e)))}
	return c
}

func init() {
	rule := "non-trivial = the verdict is decided by a type-specific rule of the reference (not by 'no create event / other room' or 'sender is not in the room'); distinct = distinct Case JSON. Classes are the deciding rule ids of DESIGN Appendix A."
	vfRapid("C07/random", rule, 6000, 1000000, 16, c07GenRandom, c07Check)
	vfRapid("C07/look-alike-content-keys", rule+" Here: random rooms in which the event or an auth event carries a content key spelled like a known one in another letter case (or with U+017F / U+212A); all events go through the untrusted parser, a refusal there ends the case.", 3000, 300000, 16, c07GenLookAlike, c07Check)
	vfEnum("C07/membership-product", rule+" Product: 16 versions x 7 new memberships x self/other x 6 sender memberships x 6 target memberships x 7 join rules x sender level {<,=,>} threshold x target level {<,=,>} sender x restricted-join authoriser states; size = sampling stride (1 = complete).", 12, 1, 16, c07EnumMember, c07Check)
	vfEnum("C07/generic-product", rule+" Product: 16 versions x 12 event kinds x 6 sender memberships x level {<,=,>} requirement x m.federate {absent,true,false} x sender server x power-levels present/absent, plus the create-event product; size = sampling stride.", 4, 1, 8, c07EnumGeneric, c07Check)
}

// ---------------------------------------------------------------------------------------------
// Third-party-invite product: version x target membership x sender relation to the
// third_party_invite event x key placement x signature validity x mxid/token faults x sender joined.

func c07EnumTPI(size, shard, nshards int, emit func(c07Case)) {
	idx := 0
	for _, version := range vfVersions {
		for _, tMem := range c07PrevMems {
			for _, tpiSender := range []string{"same", "other", "absent-event"} {
				for _, keys := range []string{"public_key", "public_keys", "both", "both-single-valid", "other-key-only", "wrong-length-key"} {
					for _, sig := range []string{"valid", "valid+other-algorithms", "other-key", "garbage", "none"} {
						for _, fault := range []string{"", "mxid-mismatch", "no-token", "no-signed", "no-mxid"} {
							for _, sMem := range []string{"join", "leave"} {
								idx++
								if idx%nshards != shard || !c07Pick(idx, size) {
									continue
								}
								cs := c07TPICase(version, tMem, tpiSender, keys, sig, fault, sMem)
								// every fourth case carries a profile key of the wrong JSON type next to the
								// block: the rules do not read it, the verdict is that of the same invite without it
								if k := idx / 7 % 4; k > 0 {
									if t, err := evTree(cs.Event); err == nil {
										ct, _ := t.get("content")
										ct = ct.with([]string{"displayname", "is_direct", "avatar_url"}[k-1], []jv{jnum(42), jstr("yes"), {K: 'o'}}[k-1])
										cs.Event = vfBytes(jplain(t.with("content", ct)))
									}
								}
								emit(cs)
							}
						}
					}
				}
			}
		}
	}
}

func c07TPICase(version, tMem, tpiSender, keys, sig, fault, sMem string) c07Case {
	sender, target := c07Alice, c07Bob
	users := map[string]int64{c07Alice: 0}
	if !vtraits[version].Creators {
		users[c07Creator] = 100
	}
	r := c07Room{Version: version, HasPL: true, JoinRule: "invite", Members: map[string]string{c07Creator: "join", c07Alice: sMem, c07Bob: tMem}}
	// invite level 50 > alice's 0: a plain invite would be refused, so acceptance can only come from the third-party path
	r.PL = c07PLContent(users, map[string]int64{"invite": 50}, nil, nil)
	signKey := "idkey1"
	switch sig {
	case "other-key":
		signKey = "idkey3"
	}
	mxid := target
	if fault == "mxid-mismatch" {
		mxid = c07Carol
	}
	signed := c07Signed(mxid, "tok", signKey, sig == "valid+other-algorithms")
	switch sig {
	case "garbage":
		signed = signed.with("signatures", jobj("id.example", jobj("ed25519:0", jstr("AAAA"))))
	case "none":
		signed = signed.without("signatures")
	}
	switch fault {
	case "no-token":
		signed = signed.without("token")
	case "no-mxid":
		signed = signed.without("mxid")
	}
	tpi := jobj("display_name", jstr("x"), "signed", signed)
	if fault == "no-signed" {
		tpi = jobj("display_name", jstr("x"))
	}
	if tpiSender != "absent-event" {
		var tc jv
		one := jobj("public_key", jstr(c07PubB64("idkey1")), "key_validity_url", jstr("https://id.example/v"))
		switch keys {
		case "public_key":
			tc = jobj("display_name", jstr("x"), "key_validity_url", jstr("https://id.example/v"), "public_key", jstr(c07PubB64("idkey1")))
		case "public_keys":
			tc = jobj("display_name", jstr("x"), "public_keys", jarr(jobj("public_key", jstr(c07PubB64("idkey9"))), one))
		case "both":
			tc = jobj("display_name", jstr("x"), "public_key", jstr(c07PubB64("idkey9")), "public_keys", jarr(one))
		case "both-single-valid":
			// the signing key is the single public_key; the list holds unrelated keys only
			tc = jobj("display_name", jstr("x"), "public_key", jstr(c07PubB64("idkey1")), "public_keys", jarr(jobj("public_key", jstr(c07PubB64("idkey9"))), jobj("public_key", jstr(c07PubB64("idkey8")))))
		case "other-key-only":
			tc = jobj("display_name", jstr("x"), "public_key", jstr(c07PubB64("idkey8")), "public_keys", jarr(jobj("public_key", jstr(c07PubB64("idkey9")))))
		default: // a key of the wrong length next to nothing usable
			tc = jobj("display_name", jstr("x"), "public_key", jstr("AAAA"), "public_keys", jarr(jobj("public_key", jstr("AAAAAAAA"))))
		}
		r.TPI = &tc
		r.TPISender = sender
		if tpiSender == "other" {
			r.TPISender = c07Creator
		}
	}
	b := c07Build(r)
	prev := "$p:a.example"
	if vtraits[version].Format == 2 {
		prev = "$" + strings.Repeat("P", 43)
	}
	return c07Finish(version, b, raEv{Type: "m.room.member", Sender: sender, StateKey: raSK(target),
		Content: jobj("membership", jstr("invite"), "third_party_invite", tpi), Prev: []string{prev}})
}

func init() {
	vfEnum("C07/third-party-invite-product",
		"bounded-exhaustive product: 16 versions x 6 target memberships x third_party_invite event by the same sender / another sender / absent x key placement (public_key, public_keys, both, unrelated keys, wrong-length keys) x signature (valid, other key, garbage, none) x signed-block faults (mxid mismatch, no token, no signed, no mxid) x sender joined or not; the sender lacks the invite level so only the third-party path can accept; size = sampling stride; non-trivial as for C07/random",
		4, 1, 8, c07EnumTPI, c07Check)
}
